"""C01 — stream data is delivered reliably, in order, exactly once."""
import itertools
import os
from vlib import Case

# VERIF_C01_SCALE < 1 shrinks the batch (used for the mutation-sanity runs only)
SCALE = float(os.environ.get("VERIF_C01_SCALE", "1"))


def _cursor_repaired():
    """finding F60: the model has both cursor orders (sy_rot); the one matching the checked-out repo is selected"""
    try:
        import vlib
        src = open(os.path.join(vlib.REPO, "qrecovery", "src", "streams", "raw.rs")).read()
    except Exception:
        return False
    return "range(..=sid)" not in src


ROT = _cursor_repaired()

PROP_FILE = "Properties/C01.v"
RULE = ("cases = op lists over WRITE/FLUSH/SHUTDOWN/READ/RESET/STOP (real Writer/Reader polled once), EMIT side cap flow (one "
        "try_load_data_into_once), DELIVER/ACK/LOSE i (any pool frame, any order, repeated) on TWO real DataStreams endpoints with 1-4 "
        "client-opened uni/bidi streams; non-trivial = at least 2 streams, at least one STREAM frame reported lost and retransmitted "
        "afterwards, and a FIN-carrying frame delivered before some data of the same flow (evaluated on the generator's byte-level "
        "replay of the schedule); distinct by hash of the op list. Directed families besides the random / malformed ones: ex2/ex3 "
        "(every interleaving of DELIVER/ACK/LOSE over 2-3 frames), targeted (FIN first, loss + retransmission), parked (an application "
        "that polls its Reader after every delivery and its Writer after every acknowledgement while holes below the highest received "
        "offset are filled by retransmissions, final size unknown / known / learnt late), late-ack (frames that arrived are reported "
        "lost, re-sent - carrying the FIN when the application finished in between -, acknowledged late, and the retransmissions lost), "
        "ex-hist (every sequence of 5-6 events over EMIT / SHUTDOWN / DELIVER i / ACK i / LOSE i on one stream, so shutdown falls at "
        "every point of the loss history); each ends with the fair round")
TRUSTED_BASE = ["model coq/Model/Streams.v transcribes sender.rs / outgoing.rs / writer.rs / recver.rs / incoming.rs / reader.rs and the "
                "cursor loop of raw.rs over Model.SendBuf and Model.RecvBuf; equality with the two real DataStreams endpoints is checked by "
                "stream `stream_e2e` on every op (frames with a hash of their bytes, poll results, bytes read, wake counts), not proved",
                "windows: MAX_STREAM_DATA / MAX_DATA / MAX_STREAMS updates are dropped by the harness (C11 / C12 own them); every window is the "
                "CASE parameter W"]
MODELLED = ("qrecovery/src/send/{sender,outgoing,writer}.rs, recv/{recver,incoming,reader}.rs, streams/raw.rs "
            "(try_load_data_into_once incl. Output.cursor, on_data_acked, may_loss_data, on_reset_acked, recv_data, recv_stream_control for "
            "RESET_STREAM / STOP_SENDING), streams/listener.rs (accept); qlog events, metrics, tx_wakers signals not modelled")
ASSUMPTIONS = ["written bytes are position-derived per flow (content(p + 7919*(key+1)))",
               "the application polls each Writer / Reader with one waker per flow end",
               "liveness (c01_progress) assumes one fair round of the virtual network and written <= stream window; real timers belong to C13",
               "progress theorems (c01_progress, c01_progress_flow) assume: connection open, no reset / stop-sending on the flows concerned, written length within the stream window, packet capacity in [26, 2^62), dirs in {0,1}; a server flow of a stream the server has not learnt of is not covered (it has no Writer)"]

MANIFEST = {
    "text": "Machine-checked Coq theorems (Properties/C01.v) over an executable model of the whole stream data path (Writer -> Sender over the C09 SendBuf model -> adversarial frame pool -> Recver over the C08 RecvBuf model -> Reader, two endpoints, round-robin cursor): for every operation list (any capacities, any loss / reorder / duplication / delayed, repeated or contradictory acks, resets and stop-sending) the bytes handed to the reader are a prefix of the bytes written, byte for byte, every STREAM frame carries exactly the written slice it names, FIN only at the written length after shutdown, end-of-stream is reported only after the last byte and only if shutdown was called, and a reset error is never invented; every flow of every reachable state of the two-endpoint model is such a flow (c01_safety_system); from EVERY reachable state without reset one fair round (lose all, emit until drained, deliver all, ack all) makes everything readable, reports the end after the last byte when shutdown was called and completes flush / shutdown, per flow (c01_progress_flow) and for the two endpoints (c01_progress); whatever the cursor holds one try_load_data_into_once offers the packet to every stream of the output set. The model is tied to the Rust by running the extracted model and two real DataStreams endpoints on the same schedules every run; the property is also evaluated directly on the implementation's observations by a Python oracle. A parked reader is woken whenever the stream becomes readable, and no wake-up happens without a parked waker (c01_no_lost_wakeup, c01_wake_or_parked, lifted to every flow of the two-endpoint system).",
    "note": "Trusted: Coq kernel, extraction, OCaml driver, Rust harness (two real qrecovery::streams::DataStreams joined by a case-controlled channel), Python generators/oracle. Safety is a theorem for every op list of one flow and of the two-endpoint system (no class restriction since F29 is fixed). Liveness is `partial` in the sense of the design: it is a theorem about the model (c01_progress: from every reachable open state without reset / stop and with written lengths within the windows, one good round of the two endpoints - lose all, emit on both sides until nothing, deliver all, ack all - completes every client flow, every flow of a stream the server knows and every finished flow; c01_progress_flow: the same for one flow against the adversarial channel; c01_done_reads: two reads then return exactly the written bytes and report the end after shutdown), whose hypothesis is the fairness of the virtual network (the round itself); real timers, loss detection and retransmission scheduling belong to C13, window updates to C11. Observation F60 (not a C01 violation for finite data, corpus case f60): when the cursor stream has used up its 4096 tokens try_load_data_into_once restarts the round at the SAME stream, so a stream with data is never preempted by its neighbours, contrary to the doc comment (c01_cursor_no_rotation); a two-range repair is prepared as one `fix:` commit and proved to rotate (c01_cursor_rotates); the model carries both orders (sy_rot) and the props module selects the stream (`stream_e2e` / `stream_e2e_rot`) that matches the checked-out raw.rs.",
    "technique": "Coq proof (per-flow invariant over operation lists, reusing the C08 / C09 theorems; bounded-fuel good round for liveness) + differential correspondence model/implementation + direct oracle",
}

W_DEFAULT = 1 << 20
DEFAULT_TOKENS = 4096
MOD = 1000000007


def content(i):
    return (i * 131 + (i // 256) * 17 + 7) % 256


def salt(key):
    return 7919 * (key + 1)


def fhash(key, off, ln):
    h = 0
    s = salt(key)
    for q in range(ln):
        h = (h * 31 + content(off + q + s) + 1) % MOD
    return h


def sids_of(dirs):
    nb = nu = 0
    out = []
    for d in dirs:
        if d == 0:
            out.append(4 * nb)
            nb += 1
        else:
            out.append(4 * nu + 2)
            nu += 1
    return out


# --------------------------------------------------------------------------------------
# direct oracle: the property stated on the implementation's observations
# --------------------------------------------------------------------------------------

def parse_obs(tag, v):
    """-> (code, ww, rw, extra, frames)"""
    code, ww, rw = v[0], v[1], v[2]
    p = 3
    extra = []
    if tag == 3:
        n = v[p]
        extra = v[p + 1:p + 1 + n]
        p += 1 + n
    elif tag == 7:
        extra = [v[p]]
        p += 1
    nf = v[p]
    p += 1
    frames = []
    for _ in range(nf):
        frames.append(tuple(v[p:p + 6]))
        p += 6
    if p != len(v):
        raise ValueError("trailing words")
    return code, ww, rw, extra, frames


def oracle(case, obs):
    w = int(case.cfg[0])
    dirs = [int(x) for x in case.cfg[2:]]
    k = len(dirs)
    sids = sids_of(dirs)
    if len(obs) != len(case.ops):
        return "length: %d observations for %d ops (%s)" % (len(obs), len(case.ops), obs[-1] if obs else "")
    written = {}      # key -> bytes accepted by the writer
    shut = {}         # key -> op index of the first poll_shutdown
    nread = {}        # key -> bytes handed to the reader
    eof = {}          # key -> op index at which EOF was reported
    reset_seen = {}   # key -> reader got the reset error
    touched_reset = set()   # flows on which RESET / STOP was used
    pool = []         # (key, kind, a, b, fin, origin side)
    delivered_reset = set()
    last_ev = {}      # key -> last op index of WRITE ok / SHUTDOWN / LOSE on the flow
    quiet = {}        # side -> last op index of an EMIT(cap>=26, flow>=1) that emitted nothing
    deliv = {}        # pool index -> delivered ok at least once
    last_lose = {}
    last_ack = {}
    final_polls = {}  # key -> {tag: (idx, code)} last flush / shutdown poll
    reads = {}        # key -> list of (idx, room, n, code)
    parked_r = {}     # key -> (idx, rw) of a Reader::poll_read that answered Pending and has not been polled since
    parked_w = {}     # (key, tag) -> (idx, ww) of a Writer poll (0 write / 1 flush / 2 shutdown) that answered Pending
    closed = False
    for idx, ((tag, args), line) in enumerate(zip(case.ops, obs)):
        if line.startswith("!"):
            return "abnormal: op %d -> %s" % (idx, line)
        v = [int(x) for x in line.split()]
        if v == [-1]:
            if not closed:
                return "closed: op %d answered -1 without a connection error" % idx
            continue
        try:
            code, ww, rw, extra, frames = parse_obs(tag, v)
        except Exception:
            return "format: op %d -> %s" % (idx, line[:80])
        key = None
        if tag <= 5:
            side, j = args[0], args[1]
            if side < 2 and j < k:
                key = 2 * j + (side if tag in (0, 1, 2, 4) else 1 - side)
        # ---- no lost wake-up: a task that was told Pending runs again only when its waker is woken; so whenever the next poll
        # of the same kind would answer Ready, the waker must have been woken since (otherwise the task sleeps for ever on
        # a stream that is ready).  Exempt: readiness the application caused itself on that very Writer (cancel; for a
        # parked write also its own shutdown), which needs no wake-up.
        if tag in (0, 1, 2) and key is not None and code != 9:
            pw = parked_w.pop((key, tag), None)
            if pw is not None and code != 0 and ww <= pw[1]:
                return ("lost-wakeup: op %d %s on flow %d answers %d, the same poll answered Pending at op %d and the writer's waker "
                        "was never woken in between (wake count %d)" % (idx, ("poll_write", "poll_flush", "poll_shutdown")[tag], key, code, pw[0], ww))
            if code == 0:
                parked_w[(key, tag)] = (idx, ww)
            if tag == 2:
                parked_w.pop((key, 0), None)
        elif tag == 4 and key is not None and code != 9:
            for t in (0, 1, 2):
                parked_w.pop((key, t), None)
        elif tag == 3 and key is not None and code != 9:
            pr = parked_r.pop(key, None)
            if pr is not None and code != 0 and rw <= pr[1]:
                return ("lost-wakeup: op %d poll_read on flow %d answers %d with %d bytes, the reader was told Pending at op %d and its "
                        "waker was never woken in between (wake count %d): a task parked in read() sleeps for ever although the stream is readable"
                        % (idx, key, code, len(extra), pr[0], rw))
            if code == 0:
                parked_r[key] = (idx, rw)
        if tag == 0 and code == 1:
            written[key] = written.get(key, 0) + args[2]
            last_ev[key] = idx
            if key in shut:
                return "write-after-shutdown: op %d write accepted after poll_shutdown on flow %d" % (idx, key)
        elif tag == 1 and key is not None and code != 9:
            final_polls.setdefault(key, {})[1] = (idx, code)
        elif tag == 2 and key is not None and code != 9:
            if code in (0, 1) and key not in shut:
                # the FIRST poll_shutdown is the event "the application finished the stream"; polling it again asks for
                # nothing new (it used to count as an event too, which switched the liveness clauses off for every flow
                # whose shutdown is polled after the round, i.e. exactly where no-eof / shutdown-stuck apply)
                shut[key] = idx
                last_ev[key] = idx
            final_polls.setdefault(key, {})[2] = (idx, code)
        elif tag == 3 and key is not None and code != 9:
            n = len(extra)
            pos = nread.get(key, 0)
            s = salt(key)
            if code == 3:
                if key not in delivered_reset:
                    return "reset-invented: op %d reader of flow %d got a reset error, no RESET_STREAM was delivered" % (idx, key)
                reset_seen[key] = idx
                if n:
                    return "reset-bytes: op %d reset error together with %d bytes" % (idx, n)
            elif code in (0, 1):
                if key in reset_seen:
                    return "reset-then-data: op %d reader of flow %d answered %d after a reset error" % (idx, key, code)
                if code == 0 and n:
                    return "pending-bytes: op %d Pending together with %d bytes" % (idx, n)
                if n > args[2]:
                    return "overrun: op %d read %d bytes into %d" % (idx, n, args[2])
                for q in range(n):
                    if extra[q] != content(pos + q + s):
                        return ("prefix: op %d reader of flow %d got byte %d at position %d, the writer wrote %d"
                                % (idx, key, extra[q], pos + q, content(pos + q + s)))
                pos += n
                if pos > written.get(key, 0):
                    return "invented: op %d reader of flow %d has %d bytes, only %d were written" % (idx, key, pos, written.get(key, 0))
                nread[key] = pos
                if code == 1 and n == 0 and args[2] > 0:
                    if pos != written.get(key, 0):
                        return "early-eof: op %d EOF on flow %d after %d of %d bytes" % (idx, key, pos, written.get(key, 0))
                    if key not in shut:
                        return "eof-without-shutdown: op %d EOF on flow %d, shutdown was never called" % (idx, key)
                    eof.setdefault(key, idx)
                elif key in eof and n > 0:
                    return "data-after-eof: op %d flow %d returned bytes after EOF" % (idx, key)
            else:
                return "readcode: op %d unexpected code %d" % (idx, code)
            reads.setdefault(key, []).append((idx, args[2], n, code))
        elif tag in (4, 5) and key is not None:
            touched_reset.add(key)
        elif tag == 6:
            if code == 0 and args[1] >= 26 and args[2] >= 1 and args[0] < 2:
                quiet[args[0]] = idx
        elif tag in (7, 8, 9) and code != 8:
            i = args[0]
            pk = pool[i]
            if tag == 7:
                if code != 0:
                    closed = True
                    return "conn-error: op %d delivering pool frame %d %s gave error %d between two honest endpoints" % (idx, i, pk[:5], code)
                deliv[i] = idx
                if pk[1] == 2:
                    delivered_reset.add(pk[0])
                if pk[1] == 3:
                    touched_reset.add(pk[0])
            elif tag == 8 and pk[1] == 1:
                last_ack[i] = idx
            elif tag == 9 and pk[1] == 1:
                last_lose[i] = idx
                last_ev[pk[0]] = idx
        # frames put on the wire by this op
        for fr in frames:
            kind, sid, a, b, fin, h = fr
            if sid not in sids:
                return "frame-sid: op %d frame on unknown stream %d" % (idx, sid)
            j = sids.index(sid)
            if tag == 6:
                fkey = 2 * j + args[0]
            elif tag == 7:
                fkey = pool[args[0]][0]          # a RESET answering a STOP_SENDING: same flow
            else:
                fkey = key
            if kind == 1:
                wr = written.get(fkey, 0)
                if a + b > wr:
                    return "frame-beyond: op %d STREAM frame [%d,%d) of flow %d, only %d bytes written" % (idx, a, a + b, fkey, wr)
                if h != fhash(fkey, a, b):
                    return "frame-bytes: op %d STREAM frame [%d,%d) of flow %d does not carry the written bytes" % (idx, a, a + b, fkey)
                if fin:
                    if fkey not in shut:
                        return "fin-without-shutdown: op %d FIN on flow %d" % (idx, fkey)
                    if a + b != wr:
                        return "fin-offset: op %d FIN at %d, written length is %d (flow %d)" % (idx, a + b, wr, fkey)
                if a + b > w:
                    return "window: op %d STREAM frame ends at %d beyond the stream window %d" % (idx, a + b, w)
            elif kind == 2:
                touched_reset.add(fkey)
                if b > written.get(fkey, 0):
                    return "reset-final: op %d RESET_STREAM final size %d beyond the %d bytes written" % (idx, b, written.get(fkey, 0))
            pool.append((fkey, kind, a, b, fin, None))
    # ---- liveness, with its hypotheses evaluated on the trace itself
    for key in sorted(set(written) | set(shut)):
        wr = written.get(key, 0)
        if key in touched_reset or wr > w:
            continue
        side = key % 2
        q = quiet.get(side)
        if q is None or q < last_ev.get(key, -1):
            continue       # the sender was not observed drained after the last write / shutdown / loss
        mine = [i for i, pk in enumerate(pool) if pk[0] == key and pk[1] == 1]
        # fairness hypothesis of the round: a frame that was never reported lost, or that was acknowledged, was delivered;
        # frames reported lost need not be (the round delivers only what was sent after the losses)
        live = [i for i in mine if i not in last_lose or i in last_ack]
        if all(i in deliv for i in live):
            last_d = max([deliv[i] for i in live] or [0])
            fin_reads = [r for r in reads.get(key, []) if r[0] > max(last_d, q)]
            if len(fin_reads) >= 2 and all(r[1] > wr for r in fin_reads[-2:]):
                if nread.get(key, 0) != wr:
                    return ("lost-data: flow %d: sender drained, every frame delivered, reader drained with room, but only %d of %d bytes arrived"
                            % (key, nread.get(key, 0), wr))
                if key in shut and shut[key] < q and key not in eof:
                    return "no-eof: flow %d: everything delivered and read, shutdown was called, EOF never reported" % key
        unlost = [i for i in mine if i not in last_lose]
        if all(i in last_ack for i in unlost):
            last_a = max([last_ack[i] for i in unlost] or [0])
            fp = final_polls.get(key, {})
            if 1 in fp and fp[1][0] > max(last_a, q) and fp[1][1] != 1:
                return "flush-stuck: flow %d: sender drained and every frame acknowledged, poll_flush answers %d" % (key, fp[1][1])
            if key in shut and shut[key] < q and 2 in fp and fp[2][0] > max(last_a, q) and fp[2][1] != 1:
                return "shutdown-stuck: flow %d: sender drained and every frame (FIN included) acknowledged, poll_shutdown answers %d" % (key, fp[2][1])
    return None


# --------------------------------------------------------------------------------------
# generator: a byte-level replay of the sender side aims the schedules (it is not the oracle)
# --------------------------------------------------------------------------------------
P_, F_, L_, R_ = 0, 1, 2, 3


def vsz(v):
    return 1 if v < 64 else 2 if v < 16384 else 4 if v < 1073741824 else 8


def est_cap(cap, sid, off):
    least = 1 + vsz(sid) + (0 if off == 0 else vsz(off))
    return None if cap <= least else cap - least


class Snd:
    def __init__(self):
        self.state = 0        # 0 ready/sending, 2 data sent, 3 closed/reset
        self.col = []
        self.shut = False
        self.finlost = False
        self.finrcvd = False
        self.inset = True


class Plan:
    """builds an op list while replaying what the senders will put on the wire"""

    def __init__(self, rng, w, dirs):
        self.rng = rng
        self.w = w
        self.dirs = dirs
        self.k = len(dirs)
        self.sids = sids_of(dirs)
        self.ops = []
        self.snd = {}
        for j, d in enumerate(dirs):
            self.snd[2 * j] = Snd()
            if d == 0:
                self.snd[2 * j + 1] = Snd()
        self.cursor = {0: None, 1: None}
        self.known = set()            # streams the server knows
        self.pool = []                # (key, kind, off, len, fin)
        self.flags = {"loss_retx": False, "fin_before_data": False}
        self.lost_idx = set()
        self.acked_idx = set()
        self.delivered = {}           # key -> list of (off, len, fin)
        self.reset = False
        self.eager = 0.0              # probability that the application polls right after a network event on its flow
        self.family = "random"
        self.hole_fill = False        # a frame filling a hole below the highest received offset was delivered to a parked reader
        self.late_ack = False         # a frame was acknowledged after it had been reported lost and its range sent again
        self.rcvd = {}                # key -> set of byte positions delivered (generator's replay)
        self.parked = set()           # keys whose reader was polled while nothing was readable (replay)
        self.nread = {}               # key -> read position (replay, approximate)

    # ---- app ops
    def write(self, side, j, n):
        self.ops.append((0, [side, j, n]))
        s = self.snd.get(2 * j + side)
        if s and s.state == 0 and not s.shut and (side == 0 or j in self.known) and len(s.col) < self.w:
            s.col += [P_] * n

    def shutdown(self, side, j):
        self.ops.append((2, [side, j]))
        s = self.snd.get(2 * j + side)
        if s and s.state in (0, 2) and (side == 0 or j in self.known):
            s.shut = True

    def flush(self, side, j):
        self.ops.append((1, [side, j]))

    def read(self, side, j, n):
        self.ops.append((3, [side, j, n]))
        key = 2 * j + (1 - side)
        got = self.rcvd.get(key, set())
        pos = self.nread.get(key, 0)
        if pos in got:
            self.parked.discard(key)
            q = pos
            while q in got and q - pos < n:
                q += 1
            self.nread[key] = q
        else:
            self.parked.add(key)

    def app_after_delivery(self, key):
        if self.eager and self.rng.random() < self.eager:
            self.read(1 - key % 2, key // 2, self.rng.choice([1, 3, 17, 100, 5000, 5000]))

    def app_after_ack(self, key):
        if self.eager and self.rng.random() < self.eager:
            side, j = key % 2, key // 2
            s = self.snd.get(key)
            if s is not None and s.shut and self.rng.random() < 0.5:
                self.shutdown(side, j)
            else:
                self.flush(side, j)

    def reset_op(self, side, j, err):
        self.ops.append((4, [side, j, err]))
        s = self.snd.get(2 * j + side)
        self.reset = True
        if s and s.state in (0, 2) and (side == 0 or j in self.known):
            s.state = 3
            self.pool.append((2 * j + side, 2, 0, 0, 0))

    def stop_op(self, side, j, err):
        self.ops.append((5, [side, j, err]))
        self.reset = True
        key = 2 * j + (1 - side)
        if key in self.snd and (side == 0 or j in self.known):
            # one STOP_SENDING frame per reader at most; replay approximates: first call only
            if not getattr(self.snd[key], "stopped", False):
                self.snd[key].stopped = True
                self.pool.append((key, 3, 0, 0, 0))

    # ---- transport
    def _try(self, key, sid, cap, tok, credit):
        s = self.snd[key]
        if s.state == 3:
            return None
        col = s.col
        n = min(len(col), self.w)
        start = None
        c = None
        for i in range(n):
            if col[i] == L_:
                start, c = i, L_
                break
        if start is None:
            for i in range(n):
                if col[i] == P_:
                    if credit > 0:
                        start, c = i, P_
                    break
        if start is not None:
            ec = est_cap(cap, sid, start)
            if ec is None:
                return None
            allow = min(tok, ec)
            if c == P_:
                allow = min(allow, credit)
            e = start
            while e < n and col[e] == c and e - start < allow:
                e += 1
            for i in range(start, e):
                col[i] = F_
            eos = s.shut and e == len(col) if s.state == 0 else e == len(col)
            if eos and s.state == 0:
                s.state = 2
            return (start, e - start, 1 if eos else 0)
        sent = n
        for i in range(n):
            if col[i] == P_:
                sent = i
                break
        if s.state == 0:
            if s.shut and sent == len(col) and est_cap(cap, sid, sent) is not None:
                s.state = 2
                return (sent, 0, 1)
            return None
        if s.finlost:
            s.finlost = False
            return (len(col), 0, 1)
        return None

    def emit(self, side, cap, flow=None):
        flow = cap if flow is None else flow
        self.ops.append((6, [side, cap, flow]))
        if cap < 25:
            return None
        keys = sorted((self.sids[k // 2], k) for k, s in self.snd.items()
                      if k % 2 == side and s.inset and (side == 0 or (k // 2) in self.known))
        ks = [x[0] for x in keys]
        cur = self.cursor[side]
        if cur is None:
            order = [(x, DEFAULT_TOKENS) for x in reversed(ks)]
        elif cur[1] == 0 and ROT:
            order = [(x, DEFAULT_TOKENS) for x in reversed([y for y in ks if y < cur[0]])] + \
                    [(x, DEFAULT_TOKENS) for x in reversed([y for y in ks if y >= cur[0]])]
        elif cur[1] == 0:
            order = [(x, DEFAULT_TOKENS) for x in reversed([y for y in ks if y <= cur[0]])] + \
                    [(x, DEFAULT_TOKENS) for x in reversed([y for y in ks if y > cur[0]])]
        else:
            order = ([(cur[0], cur[1])] if cur[0] in ks else []) + \
                    [(x, DEFAULT_TOKENS) for x in reversed([y for y in ks if y < cur[0]])] + \
                    [(x, DEFAULT_TOKENS) for x in reversed([y for y in ks if y > cur[0]])]
        kmap = dict(keys)
        for sid, tok in order:
            r = self._try(kmap[sid], sid, cap, tok, min(flow, cap))
            if r is not None:
                self.cursor[side] = (sid, tok - r[1])
                self.pool.append((kmap[sid], 1, r[0], r[1], r[2]))
                if self.lost_idx:
                    self.flags["loss_retx"] = True
                return len(self.pool) - 1
        return None

    def deliver(self, i):
        self.ops.append((7, [i]))
        if i < len(self.pool):
            key, kind, off, ln, fin = self.pool[i]
            to_server = (key % 2 == 1) if kind == 3 else (key % 2 == 0)
            if to_server:
                j = key // 2
                d = self.dirs[j]
                for jj in range(j + 1):
                    if self.dirs[jj] == d:
                        self.known.add(jj)
            if kind == 1:
                got = self.delivered.setdefault(key, [])
                if ln > 0 and not fin and any(f for (_, _, f) in got):
                    self.flags["fin_before_data"] = True
                got.append((off, ln, fin))
                have = self.rcvd.setdefault(key, set())
                pos = self.nread.get(key, 0)
                if key in self.parked and pos not in have and off <= pos < off + ln and have and off + ln <= max(have):
                    self.hole_fill = True
                have.update(range(off, off + ln))
                self.app_after_delivery(key)
            elif kind == 3:
                s = self.snd[key]
                if s.inset and s.state in (0, 2):
                    s.state = 3
                    self.pool.append((key, 2, 0, 0, 0))

    def ack(self, i):
        self.ops.append((8, [i]))
        self.acked_idx.add(i)
        if i < len(self.pool):
            key, kind, off, ln, fin = self.pool[i]
            s = self.snd[key]
            if kind == 1 and i in self.lost_idx and any(c == F_ for c in s.col[off:off + ln]):
                self.late_ack = True
            if kind == 1 and s.inset and s.state in (0, 2):
                for q in range(off, off + ln):
                    s.col[q] = R_
                if s.state == 2:
                    if fin:
                        s.finrcvd = True
                    if s.finrcvd and all(c == R_ for c in s.col):
                        s.state = 3
                        s.inset = False
            elif kind == 2:
                s.inset = False
            if kind == 1:
                self.app_after_ack(key)

    def lose(self, i):
        self.ops.append((9, [i]))
        if i < len(self.pool):
            key, kind, off, ln, fin = self.pool[i]
            s = self.snd[key]
            if kind == 1 and s.inset and s.state in (0, 2):
                self.lost_idx.add(i)
                for q in range(off, off + ln):
                    if s.col[q] == F_:
                        s.col[q] = L_
                if s.state == 2 and fin and not s.finrcvd:
                    s.finlost = True

    # ---- the closing fair round
    def good_round(self, cap):
        n0 = len(self.pool)
        for i in range(n0):
            self.lose(i)
        for side in (0, 1):
            guard = 0
            while self.emit(side, cap) is not None and guard < 4000:
                guard += 1
            for _ in range(3):
                self.emit(side, cap)
        # only what was sent after the losses is delivered (plus what had been acknowledged: ack implies delivery);
        # frames the replay did not foresee still get their turn
        n1 = len(self.pool) + 3
        for i in sorted(self.acked_idx):
            if i < n0:
                self.deliver(i)
        for i in range(n0, n1):
            self.deliver(i)
        for side in (0, 1):
            guard = 0
            while self.emit(side, cap) is not None and guard < 4000:
                guard += 1
            self.emit(side, cap)
        n2 = len(self.pool) + 3
        for i in range(n1, n2):
            self.deliver(i)
        for i in range(n0, n2):
            self.ack(i)
        for key, s in sorted(self.snd.items()):
            side, j = key % 2, key // 2
            big = len(s.col) + 10
            self.read(1 - side, j, big)
            self.read(1 - side, j, big)
            self.flush(side, j)
            if s.shut:
                self.shutdown(side, j)

    def case(self, name):
        m = {"nt": self.k >= 2 and self.flags["loss_retx"] and self.flags["fin_before_data"], "reset": self.reset,
             "frames": len(self.pool), "family": self.family, "hole_fill": self.hole_fill, "late_ack": self.late_ack}
        return Case(name, self.ops, [self.w, self.k] + self.dirs, m)


def gen_random_case(rng, name, malformed=False):
    k = rng.randint(1, 4)
    dirs = [rng.choice([0, 0, 1]) for _ in range(k)]
    w = W_DEFAULT
    if malformed and rng.random() < 0.4:
        w = rng.choice([0, 1, 30, 200])
    p = Plan(rng, w, dirs)
    p.family = "malformed" if malformed else "random"
    small = rng.random() < 0.6
    use_reset = rng.random() < (0.5 if malformed else 0.12)
    caps = [26, 27, 28, 30, 40, 64, 100, 300, 1200, 1500]
    cap0 = rng.choice(caps)
    flows = [(0, j) for j in range(k)] + [(1, j) for j in range(k) if dirs[j] == 0]
    budget = {f: (rng.randint(0, 40) if small else rng.randint(0, 6000)) for f in flows}
    if rng.random() < 0.15:
        budget[rng.choice(flows)] = 0
    will_shut = {f: rng.random() < 0.8 for f in flows}
    steps = rng.randint(10, 60)
    for _ in range(steps):
        r = rng.random()
        side, j = rng.choice(flows)
        if r < 0.22:
            left = budget[(side, j)]
            if left > 0:
                n = rng.randint(1, left) if rng.random() < 0.6 else left
                budget[(side, j)] -= n
                p.write(side, j, n)
            elif will_shut[(side, j)]:
                p.shutdown(side, j)
            else:
                p.write(side, j, 0)
        elif r < 0.30:
            p.shutdown(side, j) if (budget[(side, j)] == 0 or malformed) and will_shut[(side, j)] else p.flush(side, j)
        elif r < 0.52:
            cap = rng.choice([cap0, cap0, rng.choice(caps), rng.randint(26, 1500)])
            if malformed and rng.random() < 0.1:
                cap = rng.choice([0, 10, 24, 25])
            flow = cap if rng.random() < 0.8 else rng.choice([0, 1, 5, 50])
            p.emit(rng.choice([0, 0, 1]), cap, flow)
        elif r < 0.70:
            if p.pool:
                i = rng.randrange(len(p.pool)) if rng.random() < 0.7 else len(p.pool) - 1
                p.deliver(i)
            else:
                p.emit(0, cap0)
        elif r < 0.78:
            if p.pool:
                p.lose(rng.randrange(len(p.pool)))
        elif r < 0.88:
            if p.pool:
                p.ack(rng.randrange(len(p.pool)))
        elif r < 0.96:
            p.read(1 - side, j, rng.choice([0, 1, 3, 17, 100, 5000]))
        elif use_reset:
            if rng.random() < 0.5:
                p.reset_op(side, j, rng.randint(0, 9))
            else:
                p.stop_op(1 - side, j, rng.randint(0, 9))
        else:
            p.flush(side, j)
        if malformed and rng.random() < 0.03:
            p.ops.append((rng.choice([7, 8, 9]), [len(p.pool) + rng.randint(0, 3)]))
        if malformed and rng.random() < 0.02:
            p.ops.append((rng.choice([0, 3]), [rng.choice([0, 1, 2]), k + rng.randint(0, 1), 3]))
    # let the remaining budget out, then the fair round
    if not p.reset and rng.random() < 0.85:
        for (side, j) in flows:
            if budget[(side, j)] > 0 and rng.random() < 0.7:
                p.write(side, j, budget[(side, j)])
            if will_shut[(side, j)]:
                p.shutdown(side, j)
        p.good_round(rng.choice([cap0, 1200, 100]))
    return p.case(name)


def gen_targeted(rng, name):
    """>= 2 streams, loss + retransmission, FIN delivered ahead of data"""
    k = rng.randint(2, 4)
    dirs = [rng.choice([0, 1]) for _ in range(k)]
    p = Plan(rng, W_DEFAULT, dirs)
    p.family = "targeted"
    cap = rng.choice([30, 40, 64, 100, 300])
    sizes = [rng.randint(1, 3 * cap) for _ in range(k)]
    for j in range(k):
        n = sizes[j]
        a = rng.randint(0, n)
        p.write(0, j, a)
        if rng.random() < 0.5:
            p.emit(0, cap)
        p.write(0, j, n - a)
        p.shutdown(0, j)
    while p.emit(0, rng.choice([cap, cap + 7])) is not None and len(p.pool) < 60:
        pass
    idx = list(range(len(p.pool)))
    # lose a few, deliver the rest in reverse (FIN first), retransmit, deliver, shuffle acks
    lost = [i for i in idx if rng.random() < 0.4] or [idx[0]]
    for i in lost:
        p.lose(i)
    for i in reversed(idx):
        if i not in lost or rng.random() < 0.2:
            p.deliver(i)
            if rng.random() < 0.3:
                p.read(1, rng.randrange(k), rng.choice([1, 10, 1000]))
    n0 = len(p.pool)
    while p.emit(0, rng.choice([cap, 26 + rng.randint(0, 20)])) is not None and len(p.pool) < 140:
        pass
    new = list(range(n0, len(p.pool)))
    rng.shuffle(new)
    for i in new:
        p.deliver(i)
        if rng.random() < 0.3:
            p.deliver(rng.choice(idx))
    order = list(range(len(p.pool)))
    rng.shuffle(order)
    for i in order:
        if rng.random() < 0.8:
            p.ack(i)
        if rng.random() < 0.1:
            p.lose(i)
    if dirs[0] == 0 and rng.random() < 0.5:
        p.write(1, 0, rng.randint(1, 50))
        p.shutdown(1, 0)
    p.good_round(cap)
    return p.case(name)


def gen_exhaustive(nframes, prefix, rng):
    """one stream, data split into `nframes` frames (the last with FIN or a FIN-only frame):
    every interleaving of DELIVER / ACK / LOSE events over the frames, then the fair round"""
    cases = []
    n = 0
    for fin_only in (False, True):
        cap = 30
        data = (cap - 2) * (nframes - (1 if fin_only else 0))
        if data <= 0:
            continue
        events = [(t, i) for i in range(nframes) for t in (7, 8, 9)]
        # every ordered selection of up to nframes+1 events, plus full permutations for 2 frames
        lens = range(0, 4) if nframes == 3 else range(0, 2 * nframes + 1)
        for ln in lens:
            for seq in itertools.permutations(events, ln):
                p = Plan(rng, W_DEFAULT, [0])
                p.family = "ex%d" % nframes
                p.write(0, 0, data)
                if not fin_only:
                    p.shutdown(0, 0)
                for _ in range(nframes - (1 if fin_only else 0)):
                    p.emit(0, cap)
                if fin_only:
                    p.shutdown(0, 0)
                    p.emit(0, cap)
                for (t, i) in seq:
                    (p.deliver if t == 7 else p.ack if t == 8 else p.lose)(i)
                    if t == 9:
                        p.emit(0, cap + 1)
                p.read(1, 0, 7)
                p.good_round(cap + 3)
                cases.append(p.case("%s%d" % (prefix, n)))
                n += 1
    return cases


def gen_parked(rng, name):
    """an application that polls after every network event (its Reader after each delivery, its Writer after each
    acknowledgement), while frames arrive out of order: holes open below the highest received offset and are filled
    later by retransmissions, with the final size unknown, known early, or learnt late"""
    k = rng.randint(1, 3)
    dirs = [rng.choice([0, 1]) for _ in range(k)]
    p = Plan(rng, W_DEFAULT, dirs)
    p.family = "parked"
    p.eager = rng.choice([1.0, 1.0, 0.7])
    cap = rng.choice([28, 30, 40, 64, 100])
    mode = {}
    for j in range(k):
        n = (cap - 2) * rng.randint(2, 5) - rng.randint(0, cap - 3)
        p.write(0, j, n)
        mode[j] = rng.choice(["nofin", "nofin", "fin", "late-shutdown"])
        if mode[j] == "fin":
            p.shutdown(0, j)
    while p.emit(0, cap) is not None and len(p.pool) < 40:
        pass
    idx = list(range(len(p.pool)))
    for j in range(k):                      # the reader task starts before anything has arrived: it parks
        if rng.random() < 0.7:
            p.read(1, j, 5000)
    lost = [i for i in idx if rng.random() < 0.4] or [idx[0]]
    order = [i for i in idx if i not in lost]
    if rng.random() < 0.6:
        rng.shuffle(order)
    elif rng.random() < 0.5:
        order.reverse()
    for i in order:
        p.deliver(i)
    for j in range(k):                      # a server that answers what it has got so far
        if dirs[j] == 0 and rng.random() < 0.2:
            p.write(1, j, rng.randint(1, 40))
    for i in lost:
        p.lose(i)
    for j in range(k):
        if mode[j] == "late-shutdown" and rng.random() < 0.5:
            p.shutdown(0, j)
            mode[j] = "fin"
    n0 = len(p.pool)
    while p.emit(0, rng.choice([cap, cap, cap + 9])) is not None and len(p.pool) < 90:
        pass
    new = list(range(n0, len(p.pool)))
    if rng.random() < 0.5:
        rng.shuffle(new)
    for i in new:
        p.deliver(i)
        if rng.random() < 0.15:
            p.deliver(rng.choice(idx))      # a duplicate of an original
    for j in range(k):                      # whatever is readable now must have woken the parked reader
        p.read(1, j, 5000)
    acks = order + new
    rng.shuffle(acks)
    for i in acks:
        if rng.random() < 0.85:
            p.ack(i)
    for j in range(k):
        if mode[j] == "late-shutdown":
            p.shutdown(0, j)
    p.good_round(cap)
    return p.case(name)


def gen_late_ack(rng, name):
    """spurious loss reports: frames that did arrive are declared lost, their ranges are sent again (re-cut by another
    capacity, and carrying the FIN if the application finished in between), the late acknowledgements of the originals
    arrive, and then the retransmissions are lost for real; then the fair round"""
    k = rng.randint(1, 3)
    dirs = [rng.choice([0, 1]) for _ in range(k)]
    p = Plan(rng, W_DEFAULT, dirs)
    p.family = "late-ack"
    p.eager = rng.choice([0.0, 0.0, 0.5])
    cap = rng.choice([28, 30, 40, 64, 100, 300])
    when = {}
    for j in range(k):
        n = max(1, (cap - 2) * rng.randint(1, 3) - rng.choice([0, 0, rng.randint(0, cap - 3)]))
        p.write(0, j, n)
        when[j] = rng.choice(["before", "between", "between", "after", "never"])
        if when[j] == "before":
            p.shutdown(0, j)
    while p.emit(0, cap) is not None and len(p.pool) < 30:
        pass
    first = list(range(len(p.pool)))
    arrived = [i for i in first if rng.random() < 0.8]
    if rng.random() < 0.5:
        rng.shuffle(arrived)
    for i in arrived:
        p.deliver(i)
    spurious = [i for i in first if rng.random() < 0.6] or [first[-1]]
    for i in spurious:
        p.lose(i)
    for j in range(k):
        if when[j] == "between":
            if rng.random() < 0.3:
                p.write(0, j, rng.randint(1, cap))
            p.shutdown(0, j)
    n0 = len(p.pool)
    while p.emit(0, rng.choice([cap, cap, cap + 11, 1200])) is not None and len(p.pool) < 70:
        pass
    for j in range(k):
        if when[j] == "after":
            p.shutdown(0, j)
    while p.emit(0, cap) is not None and len(p.pool) < 80:
        pass
    retx = list(range(n0, len(p.pool)))
    for i in spurious:                      # the acknowledgements were only late
        if rng.random() < 0.85:
            p.ack(i)
    for i in retx:
        r = rng.random()
        if r < 0.75:
            p.lose(i)
        elif r < 0.9:
            p.deliver(i)
            p.ack(i)
    if rng.random() < 0.3:                  # what the sender makes of it before the round
        while p.emit(0, cap) is not None and len(p.pool) < 100:
            pass
    p.good_round(cap)
    return p.case(name)


def gen_exhaustive_hist(depth, nfr, prefix, rng):
    """one stream, `nfr` frames' worth of data written, nothing else fixed: every sequence of `depth` events over
    EMIT / SHUTDOWN / DELIVER i / ACK i / LOSE i (i = any of the first three pool frames that exist by then), so that the
    application's shutdown falls at every point of the loss / retransmission / late-acknowledgement history; then the
    fair round"""
    cap = 30
    cases = []
    seen = set()

    def rec(seq, nemit, shut):
        if len(seq) == depth:
            cases.append(seq)
            return
        # EMIT (an emission that finds nothing is kept once: it is the observation `drained`)
        rec(seq + [("E",)], nemit + 1, shut)
        if not shut:
            rec(seq + [("S",)], nemit, True)
        for i in range(min(nemit, 3)):
            for t in (7, 8, 9):
                rec(seq + [(t, i)], nemit, shut)

    rec([("E",)], 1, False)
    out = []
    for n, seq in enumerate(cases):
        p = Plan(rng, W_DEFAULT, [0])
        p.family = "ex-hist"
        p.write(0, 0, nfr * (cap - 2))
        for ev in seq:
            if ev[0] == "E":
                p.emit(0, cap)
            elif ev[0] == "S":
                p.shutdown(0, 0)
            else:
                (p.deliver if ev[0] == 7 else p.ack if ev[0] == 8 else p.lose)(ev[1])
        sig = tuple((t, tuple(a)) for t, a in p.ops)
        if sig in seen:
            continue
        seen.add(sig)
        if not p.snd[0].shut:
            p.shutdown(0, 0)
        p.read(1, 0, 7)
        p.good_round(cap + 3)
        out.append(p.case("%s%d" % (prefix, n)))
    return out


def gen(rng, tier):
    cases = []
    if tier == "quick":
        ex = gen_exhaustive(2, "ex2-", rng)
        rng.shuffle(ex)
        cases += ex[:int(300 * SCALE)]
        cases += [gen_targeted(rng, "t%d" % i) for i in range(int(200 * SCALE))]
        cases += [gen_parked(rng, "pk%d" % i) for i in range(int(250 * SCALE))]
        cases += [gen_late_ack(rng, "la%d" % i) for i in range(int(250 * SCALE))]
        for nfr in (1, 2):
            eh = gen_exhaustive_hist(6, nfr, "eh6.%d-" % nfr, rng)
            rng.shuffle(eh)
            cases += eh[:int(150 * SCALE)]
        cases += [gen_random_case(rng, "r%d" % i) for i in range(int(700 * SCALE))]
        cases += [gen_random_case(rng, "m%d" % i, malformed=True) for i in range(int(200 * SCALE))]
    else:
        cases += gen_exhaustive(2, "ex2-", rng)
        ex3 = gen_exhaustive(3, "ex3-", rng)
        cases += ex3
        cases += [gen_targeted(rng, "t%d" % i) for i in range(3000)]
        cases += [gen_parked(rng, "pk%d" % i) for i in range(2000)]
        cases += [gen_late_ack(rng, "la%d" % i) for i in range(2000)]
        cases += gen_exhaustive_hist(6, 1, "eh6.1-", rng)
        cases += gen_exhaustive_hist(5, 2, "eh5.2-", rng)
        eh = gen_exhaustive_hist(6, 2, "eh6.2-", rng)
        rng.shuffle(eh)
        cases += eh[:3000]
        cases += [gen_random_case(rng, "r%d" % i) for i in range(12000)]
        cases += [gen_random_case(rng, "m%d" % i, malformed=True) for i in range(3000)]
    return cases


def nontrivial(case):
    return bool(case.meta.get("nt"))


def hist(case):
    dirs = [int(x) for x in case.cfg[2:]]
    lab = ["streams:%d" % len(dirs), "bidi:%d" % sum(1 for d in dirs if d == 0),
           "window:%s" % ("default" if int(case.cfg[0]) == W_DEFAULT else "small")]
    names = ("write", "flush", "shutdown", "read", "reset", "stop", "emit", "deliver", "ack", "lose")
    for t, a in case.ops:
        lab.append("op:%s" % names[t] if t < 10 else "op:?")
        if t == 6:
            c = a[1]
            lab.append("cap:%s" % ("<25" if c < 25 else "26-40" if c <= 40 else "41-300" if c <= 300 else "301-1500"))
        if t == 0:
            n = a[2]
            lab.append("write:%s" % ("0" if n == 0 else "1-40" if n <= 40 else "41-1500" if n <= 1500 else ">1500"))
    fr = case.meta.get("frames", 0)
    lab.append("frames:%s" % ("0" if fr == 0 else "1-3" if fr <= 3 else "4-15" if fr <= 15 else "16+"))
    if case.meta.get("reset"):
        lab.append("with-reset/stop")
    lab.append("family:%s" % case.meta.get("family", "random"))
    if case.meta.get("hole_fill"):
        lab.append("hole-filled-under-parked-reader")
    if case.meta.get("late_ack"):
        lab.append("ack-after-loss-and-resend")
    return lab


def mutate(rng, case, j):
    ops = [(t, list(a)) for t, a in case.ops]
    nfr = max(1, case.meta.get("frames", 4))
    for _ in range(rng.randint(1, 4)):
        r = rng.random()
        if r < 0.35:
            ops.insert(rng.randint(0, len(ops)), (rng.choice([7, 8, 9]), [rng.randrange(nfr)]))
        elif r < 0.55:
            ops.insert(rng.randint(0, len(ops)), (6, [rng.choice([0, 1]), rng.choice([26, 30, 100, 1200]), 2000]))
        elif r < 0.75 and ops:
            a, b = rng.randrange(len(ops)), rng.randrange(len(ops))
            ops[a], ops[b] = ops[b], ops[a]
        elif ops:
            del ops[rng.randrange(len(ops))]
    return Case("m%d" % j, ops, case.cfg, dict(case.meta))


STREAMS = [{
    "name": "stream_e2e_rot" if ROT else "stream_e2e", "pkg": "hr", "bin": "impl_stream_e2e",
    "gen": gen, "oracle": oracle, "nontrivial": nontrivial, "hist": hist, "mutate": mutate,
    "profiles": ("debug",), "profiles_thorough": ("debug", "release"),
    "rule": RULE,
}]
