//! Correspondence stream `connerr` (C17): the REAL `qrecovery::streams::DataStreams`,
//! `qdatagram::DatagramFlow`, `qbase::flow::FlowController` and `qbase::param::ArcParameters`
//! with application operations of every kind pending, then the connection-error fan-out of
//! `qconnection::Components::enter_closing` (data_streams, datagram_flow, parameters — in that
//! order) at any point of the history.
//!
//! Every application operation is a TASK: it is polled once with its own counting waker; if it
//! is Pending it stays parked and is re-polled only after its waker was woken (what an executor
//! does).  The peer is well behaved: stream data arrives in order and inside every limit, so the
//! only connection error of a case is the injected one.
//!
//! CASE cfg: role remembered peer_max_bidi peer_max_uni peer_sd
//!   role 0 client / 1 server; remembered 1 = client holding 0-RTT parameters (equal to the peer's);
//!   peer_max_* = the peer's initial_max_streams_*; peer_sd = every send window the peer grants
//! ops (task-creating ops answer with the task's first poll):
//!   0 HANDSHAKE | 1 OPEN dir | 2 ACCEPT dir | 3 WRITE sid len | 4 FLUSH sid | 5 SHUTDOWN sid
//!   6 READ sid n | 7 DGRECV | 8 DGSEND len | 9 CANCEL sid | 10 PREADY (params.remote_ready)
//!   11 PEEROPEN dir | 12 DATA sid len fin | 13 FINGAP sid g | 14 PRESET sid | 15 PSTOP sid
//!   16 MAXSD sid v | 17 MAXSTREAMS dir v | 18 LOAD | 19 ACK sid | 20 DGRAM len
//!   21 CONNERR eid | 22 FLOWERR eid | 23 CREDIT n
//!   24 RACE eid ttag targs… : the task op `ttag targs` (1 OPEN dir | 2 ACCEPT dir) is polled on a second
//!      thread and STALLED INSIDE ITS CRITICAL SECTION (the harness holds the ArcParameters lock, which
//!      open_bi/open_uni/accept_bi take after their stream / listener guards); while it is stalled the
//!      connection-error fan-out of op 21 runs on a third thread until it blocks (on a guard the poll
//!      holds) or finishes; then the parameter lock is released and both run to completion.  This is the
//!      one schedule of "a poll racing the close" that a sequential history cannot express: the poll
//!      has passed its health check but has not parked its waker yet when the close begins.  Whatever
//!      the close does outside the guards runs BEFORE the poll parks.  Answers with the poll's result.
//! observation:  <result words> W <tids woken by the op> C <tid code val>*   with
//!   result of a task op: code val   (0 Pending | 1 Ok val | 2 connection error eid | 3 stream-level
//!   error (1 EosSent, 2 Reset) | 4 no stream id left | 8 slot busy | 9 unknown stream)
//!   `W n t…` = parked tasks whose waker fired during the op, `C n (t code val)…` = parked tasks
//!   that completed when re-polled (markers are -1 and -2).
use std::collections::BTreeMap;
use std::future::Future;
use std::pin::Pin;
use std::sync::atomic::{AtomicBool, AtomicUsize, Ordering};
use std::sync::{Arc, Mutex};
use std::task::{Context, Poll, Wake, Waker};

use bytes::{BufMut, Bytes, buf::UninitSlice};
use hproto::{Obs, Op};
use qbase::{
    cid::ConnectionId,
    error::{AppError, Error, ErrorKind, QuicError},
    flow::FlowController,
    frame::{
        DataBlockedFrame, DatagramFrame, Frame, MaxDataFrame, MaxStreamDataFrame, MaxStreamsFrame,
        ResetStreamFrame, StopSendingFrame, StreamCtlFrame, StreamFrame,
        io::{ReceiveFrame, SendFrame},
    },
    net::tx::ArcSendWakers,
    packet::RecordFrame,
    param::{ArcParameters, ClientParameters, ParameterId, Parameters, ServerParameters},
    role::Role,
    sid::{Dir, StreamId, handy::ConsistentConcurrency},
    util::ContinuousData,
    varint::VarInt,
};
use qdatagram::{DatagramFlow, DatagramReader, DatagramWriter};
use qrecovery::{
    recv::Reader,
    send::{CancelStream, Writer},
    streams::{DataStreams, Ext, error::StreamError},
};

#[derive(Clone, Default, Debug)]
struct Tx;
impl SendFrame<StreamCtlFrame> for Tx {
    fn send_frame<I: IntoIterator<Item = StreamCtlFrame>>(&self, _iter: I) {}
}
impl SendFrame<MaxDataFrame> for Tx {
    fn send_frame<I: IntoIterator<Item = MaxDataFrame>>(&self, _iter: I) {}
}
impl SendFrame<DataBlockedFrame> for Tx {
    fn send_frame<I: IntoIterator<Item = DataBlockedFrame>>(&self, _iter: I) {}
}

/// packet stand-in: a bounded byte sink that records the STREAM / DATAGRAM frames written into it
struct Cap {
    left: usize,
    buf: Vec<u8>,
    frames: Vec<StreamFrame>,
    datagrams: usize,
}
unsafe impl BufMut for Cap {
    fn remaining_mut(&self) -> usize {
        self.left
    }
    unsafe fn advance_mut(&mut self, cnt: usize) {
        assert!(cnt <= self.left);
        self.left -= cnt;
        unsafe { self.buf.advance_mut(cnt) };
        if self.buf.len() > 1 << 16 {
            self.buf.clear();
        }
    }
    fn chunk_mut(&mut self) -> &mut UninitSlice {
        if self.buf.capacity() == self.buf.len() {
            self.buf.reserve(4096);
        }
        let c = self.buf.chunk_mut();
        let n = c.len().min(self.left);
        &mut c[..n]
    }
}
impl<D: ContinuousData> RecordFrame<Frame<D>, D> for Cap {
    fn record_frame(&mut self, frame: &Frame<D>) {
        match frame {
            Frame::Stream(f, _) => self.frames.push(*f),
            Frame::Datagram(..) => self.datagrams += 1,
            _ => {}
        }
    }
}

struct CountWaker(AtomicUsize);
impl Wake for CountWaker {
    fn wake(self: Arc<Self>) {
        self.0.fetch_add(1, Ordering::SeqCst);
    }
    fn wake_by_ref(self: &Arc<Self>) {
        self.0.fetch_add(1, Ordering::SeqCst);
    }
}

#[derive(Clone, Copy, PartialEq, Eq, Debug)]
enum Kind {
    Open(u64),
    Accept(u64),
    Write(u64, u64),
    Flush(u64),
    Shutdown(u64),
    Read(u64, u64),
    DgRecv,
    PReady,
}

impl Kind {
    /// single-waker slots: at most one parked task per slot (a second one would overwrite the first waker)
    fn slot(&self) -> Option<(u8, u64)> {
        match *self {
            Kind::Open(_) | Kind::PReady => None,
            Kind::Accept(d) => Some((2, d)),
            Kind::Write(s, _) => Some((3, s)),
            Kind::Flush(s) => Some((4, s)),
            Kind::Shutdown(s) => Some((5, s)),
            Kind::Read(s, _) => Some((6, s)),
            Kind::DgRecv => Some((7, 0)),
        }
    }
}

struct Task {
    tid: usize,
    kind: Kind,
    cw: Arc<CountWaker>,
    seen: usize,
}

struct RecvTrack {
    rcvd: u64,
    fin: Option<u64>,
    reset: bool,
}

struct St {
    role: Role,
    ds: DataStreams<Tx>,
    flow: &'static FlowController<Tx>,
    params: ArcParameters,
    dg: DatagramFlow,
    dg_reader: DatagramReader,
    dg_writer: DatagramWriter,
    remote: [u64; 6],
    hs_done: bool,
    writers: BTreeMap<u64, Writer<Ext<Tx>>>,
    readers: BTreeMap<u64, Reader<Ext<Tx>>>,
    peer_next: [u64; 2],
    recv_track: BTreeMap<u64, RecvTrack>,
    unacked: BTreeMap<u64, Vec<StreamFrame>>,
    tasks: Vec<Task>,
}

fn vi(v: u64) -> VarInt {
    VarInt::from_u64(v).expect("varint")
}

fn fill<R: qbase::role::IntoRole + Default>(p: &mut qbase::param::core::Parameters<R>, v: &[u64]) {
    use ParameterId::*;
    p.set(InitialMaxStreamsBidi, vi(v[0])).unwrap();
    p.set(InitialMaxStreamsUni, vi(v[1])).unwrap();
    p.set(InitialMaxData, vi(v[2])).unwrap();
    p.set(InitialMaxStreamDataBidiLocal, vi(v[3])).unwrap();
    p.set(InitialMaxStreamDataBidiRemote, vi(v[4])).unwrap();
    p.set(InitialMaxStreamDataUni, vi(v[5])).unwrap();
}

const LOCAL: [u64; 6] = [100, 100, 1_000_000, 100_000, 100_000, 100_000];

fn error_of(eid: u64) -> Error {
    if eid < 100 {
        Error::App(AppError::new(VarInt::from_u64(eid).unwrap(), format!("e{eid}")))
    } else {
        let kind = match eid % 4 {
            0 => ErrorKind::Internal,
            1 => ErrorKind::ProtocolViolation,
            2 => ErrorKind::FlowControl,
            _ => ErrorKind::NoViablePath,
        };
        Error::Quic(QuicError::with_default_fty(kind, format!("e{eid}")))
    }
}

fn eid_of(e: &Error) -> i128 {
    let reason = match e {
        Error::Quic(q) => q.reason().to_owned(),
        Error::App(a) => a.reason().to_owned(),
    };
    reason.strip_prefix('e').and_then(|s| s.parse::<i128>().ok()).unwrap_or(-7)
}

fn io_eid(e: &std::io::Error) -> Option<i128> {
    e.get_ref().and_then(|r| r.downcast_ref::<Error>()).map(eid_of)
}

fn new_case(words: &[&str]) -> St {
    let c: Vec<u64> = words.iter().map(|w| w.parse::<u64>().expect("cfg")).collect();
    assert!(c.len() >= 5, "cfg needs 5 words");
    let role = if c[0] == 0 { Role::Client } else { Role::Server };
    let remembered = c[1] == 1 && role == Role::Client;
    let remote: [u64; 6] = [c[2], c[3], 1_000_000, c[4], c[4], c[4]];
    let ctrl = Box::new(ConsistentConcurrency::new(LOCAL[0], LOCAL[1]));
    let tx = Tx;
    let wakers = ArcSendWakers::default();
    let cid_c = ConnectionId::from_slice(b"client__");
    let cid_s = ConnectionId::from_slice(b"server__");
    let odcid = ConnectionId::from_slice(b"odcid___");
    let (ds, params, peer_md) = match role {
        Role::Client => {
            let mut lp = ClientParameters::default();
            fill(&mut lp, &LOCAL);
            lp.set(ParameterId::InitialSourceConnectionId, cid_c).unwrap();
            let rem = if remembered {
                let mut m = ServerParameters::default();
                fill(&mut m, &remote);
                Some(m)
            } else {
                None
            };
            let rp0 = rem.clone().unwrap_or_default();
            let ds = DataStreams::new(role, &lp, &rp0, ctrl, tx.clone(), wakers.clone(), None);
            let md = if remembered { remote[2] } else { 0 };
            (ds, ArcParameters::from(Parameters::new_client(lp, rem, odcid)), md)
        }
        Role::Server => {
            let mut lp = ServerParameters::default();
            fill(&mut lp, &LOCAL);
            lp.set(ParameterId::InitialSourceConnectionId, cid_s).unwrap();
            lp.set(ParameterId::OriginalDestinationConnectionId, odcid).unwrap();
            let rp0 = ClientParameters::default();
            let ds = DataStreams::new(role, &lp, &rp0, ctrl, tx.clone(), wakers.clone(), None);
            (ds, ArcParameters::from(Parameters::new_server(lp)), 0)
        }
    };
    let flow: &'static FlowController<Tx> =
        Box::leak(Box::new(FlowController::new(peer_md, LOCAL[2], tx.clone(), wakers.clone())));
    let dg = DatagramFlow::new(1200, wakers);
    let dg_reader = dg.reader().expect("reader");
    let dg_writer = dg.writer(1200).expect("writer");
    St {
        role,
        ds,
        flow,
        params,
        dg,
        dg_reader,
        dg_writer,
        remote,
        hs_done: false,
        writers: BTreeMap::new(),
        readers: BTreeMap::new(),
        peer_next: [0, 0],
        recv_track: BTreeMap::new(),
        unacked: BTreeMap::new(),
        tasks: Vec::new(),
    }
}

fn handshake(st: &mut St) {
    let cid_c = ConnectionId::from_slice(b"client__");
    let cid_s = ConnectionId::from_slice(b"server__");
    let odcid = ConnectionId::from_slice(b"odcid___");
    match st.role {
        Role::Client => {
            let mut rp = ServerParameters::default();
            fill(&mut rp, &st.remote);
            rp.set(ParameterId::InitialSourceConnectionId, cid_s).unwrap();
            rp.set(ParameterId::OriginalDestinationConnectionId, odcid).unwrap();
            if let Ok(mut g) = st.params.lock_guard() {
                g.recv_remote_params(rp.clone()).unwrap();
                g.initial_scid_from_peer_need_equal(cid_s).unwrap();
            }
            st.ds.revise_params(false, &rp);
        }
        Role::Server => {
            let mut rp = ClientParameters::default();
            fill(&mut rp, &st.remote);
            rp.set(ParameterId::InitialSourceConnectionId, cid_c).unwrap();
            if let Ok(mut g) = st.params.lock_guard() {
                g.recv_remote_params(rp.clone()).unwrap();
                g.initial_scid_from_peer_need_equal(cid_c).unwrap();
            }
            st.ds.revise_params(false, &rp);
        }
    }
    st.flow.sender.revise_max_data(false, st.remote[2]);
    st.hs_done = true;
}

fn sid_u(s: StreamId) -> u64 {
    u64::from(s)
}

fn se(e: StreamError) -> (i128, i128) {
    match e {
        StreamError::Connection(e) => (2, eid_of(&e)),
        StreamError::EosSent => (3, 1),
        StreamError::Reset(_) => (3, 2),
    }
}

/// what one poll of open / accept produced (the stream halves travel back to the harness thread)
enum Opened {
    Pending,
    Failed(i128),
    NoSid,
    Bi(u64, Reader<Ext<Tx>>, Writer<Ext<Tx>>, bool),
    SendOnly(u64, Writer<Ext<Tx>>),
    RecvOnly(u64, Reader<Ext<Tx>>),
}

/// one poll of open_bi / open_uni / accept_bi / accept_uni on the shared handles; runs on whatever
/// thread calls it (the harness thread for ordinary task ops, a second thread for RACE)
fn poll_open_accept(ds: &DataStreams<Tx>, params: &ArcParameters, kind: Kind, waker: &Waker) -> Opened {
    let mut cx = Context::from_waker(waker);
    match kind {
        Kind::Open(0) => {
            let mut f = std::pin::pin!(ds.open_bi(params));
            match Pin::new(&mut f).poll(&mut cx) {
                Poll::Pending => Opened::Pending,
                Poll::Ready(Ok(Some((sid, (r, w))))) => Opened::Bi(sid_u(sid), r, w, true),
                Poll::Ready(Ok(None)) => Opened::NoSid,
                Poll::Ready(Err(e)) => Opened::Failed(eid_of(&e)),
            }
        }
        Kind::Open(_) => {
            let mut f = std::pin::pin!(ds.open_uni(params));
            match Pin::new(&mut f).poll(&mut cx) {
                Poll::Pending => Opened::Pending,
                Poll::Ready(Ok(Some((sid, w)))) => Opened::SendOnly(sid_u(sid), w),
                Poll::Ready(Ok(None)) => Opened::NoSid,
                Poll::Ready(Err(e)) => Opened::Failed(eid_of(&e)),
            }
        }
        Kind::Accept(0) => {
            let mut f = std::pin::pin!(ds.accept_bi(params));
            match Pin::new(&mut f).poll(&mut cx) {
                Poll::Pending => Opened::Pending,
                Poll::Ready(Ok((sid, (r, w)))) => Opened::Bi(sid_u(sid), r, w, false),
                Poll::Ready(Err(e)) => Opened::Failed(eid_of(&e)),
            }
        }
        Kind::Accept(_) => {
            let mut f = std::pin::pin!(ds.accept_uni());
            match Pin::new(&mut f).poll(&mut cx) {
                Poll::Pending => Opened::Pending,
                Poll::Ready(Ok((sid, r))) => Opened::RecvOnly(sid_u(sid), r),
                Poll::Ready(Err(e)) => Opened::Failed(eid_of(&e)),
            }
        }
        _ => unreachable!("poll_open_accept: not an open/accept task"),
    }
}

/// files what an open / accept poll produced: (code, val)
fn note_opened(st: &mut St, r: Opened) -> (i128, i128) {
    match r {
        Opened::Pending => (0, 0),
        Opened::Failed(id) => (2, id),
        Opened::NoSid => (4, 0),
        Opened::Bi(sid, r, w, ours) => {
            st.readers.insert(sid, r);
            st.writers.insert(sid, w);
            if ours {
                st.recv_track.insert(sid, RecvTrack { rcvd: 0, fin: None, reset: false });
            }
            (1, sid as i128)
        }
        Opened::SendOnly(sid, w) => {
            st.writers.insert(sid, w);
            (1, sid as i128)
        }
        Opened::RecvOnly(sid, r) => {
            st.readers.insert(sid, r);
            (1, sid as i128)
        }
    }
}

/// the fan-out of qconnection::Components::enter_closing / enter_draining over the components the stream drives
fn fan_out(ds: &DataStreams<Tx>, dg: &DatagramFlow, params: &ArcParameters, e: &Error) {
    ds.on_conn_error(e);
    dg.on_conn_error(e);
    params.on_conn_error(e);
}

/// `/proc/<pid>/task/<tid>/stat` of the calling thread
fn my_stat_path() -> String {
    match std::fs::read_link("/proc/thread-self") {
        Ok(l) => format!("/proc/{}/stat", l.display()),
        Err(_) => String::new(),
    }
}

/// waits until the thread has finished (`done`) or sleeps in the kernel, i.e. is blocked on a lock (the
/// racing threads do nothing else that sleeps); false = neither within 10 s (reported as abnormal)
fn wait_parked(stat: &str, done: &AtomicBool) -> bool {
    let t0 = std::time::Instant::now();
    let mut seen = 0;
    loop {
        if done.load(Ordering::SeqCst) {
            return true;
        }
        let state = std::fs::read_to_string(stat)
            .ok()
            .and_then(|s| s.rfind(')').and_then(|i| s[i + 1..].trim_start().chars().next()));
        if state == Some('S') {
            seen += 1;
            if seen >= 3 {
                return true;
            }
        } else {
            seen = 0;
        }
        if t0.elapsed().as_secs() >= 10 {
            return false;
        }
        std::thread::sleep(std::time::Duration::from_micros(200));
    }
}

/// RACE: see the module documentation
fn race(st: &mut St, o: &mut Obs, tid: usize, kind: Kind, eid: u64) {
    let e = error_of(eid);
    if let Some(slot) = kind.slot() {
        if st.tasks.iter().any(|t| t.kind.slot() == Some(slot)) {
            o.push(8).push(0);
            fan_out(&st.ds, &st.dg, &st.params, &e);
            return;
        }
    }
    let cw = Arc::new(CountWaker(AtomicUsize::new(0)));
    let waker = Waker::from(cw.clone());
    let (ds, dg, params) = (st.ds.clone(), st.dg.clone(), st.params.clone());
    let gate_on = params.clone();
    let gate = gate_on.lock_guard();
    let opened = match gate {
        // the parameters have failed already: nothing to stall on, the poll simply runs first
        Err(_) => {
            let r = poll_open_accept(&ds, &params, kind, &waker);
            fan_out(&ds, &dg, &params, &e);
            Some(r)
        }
        Ok(gate) => {
            let (a_done, b_done) = (AtomicBool::new(false), AtomicBool::new(false));
            let (tx_a, rx_a) = std::sync::mpsc::channel::<String>();
            let (tx_b, rx_b) = std::sync::mpsc::channel::<String>();
            std::thread::scope(|sc| {
                let ha = sc.spawn(|| {
                    let _ = tx_a.send(my_stat_path());
                    let r = poll_open_accept(&ds, &params, kind, &waker);
                    a_done.store(true, Ordering::SeqCst);
                    r
                });
                let ok_a = rx_a.recv().map(|p| wait_parked(&p, &a_done)).unwrap_or(false);
                let hb = sc.spawn(|| {
                    let _ = tx_b.send(my_stat_path());
                    fan_out(&ds, &dg, &params, &e);
                    b_done.store(true, Ordering::SeqCst);
                });
                let ok_b = rx_b.recv().map(|p| wait_parked(&p, &b_done)).unwrap_or(false);
                drop(gate);
                let r = ha.join().ok();
                let _ = hb.join();
                if ok_a && ok_b { r } else { None }
            })
        }
    };
    let Some(opened) = opened else {
        o.push(-77);
        return;
    };
    let (code, val) = note_opened(st, opened);
    o.push(code).push(val);
    if code == 0 {
        st.tasks.push(Task { tid, kind, cw, seen: 0 });
    }
}

/// one poll of a task: (code, val)
fn poll_task(st: &mut St, kind: Kind, waker: &Waker) -> (i128, i128) {
    let mut cx = Context::from_waker(waker);
    match kind {
        Kind::Open(_) | Kind::Accept(_) => {
            let r = poll_open_accept(&st.ds, &st.params, kind, waker);
            note_opened(st, r)
        }
        Kind::Write(sid, len) => match st.writers.get_mut(&sid) {
            None => (9, 0),
            Some(w) => match w.poll_write(&mut cx, Bytes::from(vec![0u8; len as usize])) {
                Poll::Pending => (0, 0),
                Poll::Ready(Ok(())) => (1, len as i128),
                Poll::Ready(Err(e)) => se(e),
            },
        },
        Kind::Flush(sid) => match st.writers.get_mut(&sid) {
            None => (9, 0),
            Some(w) => match w.poll_flush(&mut cx) {
                Poll::Pending => (0, 0),
                Poll::Ready(Ok(())) => (1, 0),
                Poll::Ready(Err(e)) => se(e),
            },
        },
        Kind::Shutdown(sid) => match st.writers.get_mut(&sid) {
            None => (9, 0),
            Some(w) => match w.poll_shutdown(&mut cx) {
                Poll::Pending => (0, 0),
                Poll::Ready(Ok(())) => (1, 0),
                Poll::Ready(Err(e)) => se(e),
            },
        },
        Kind::Read(sid, n) => match st.readers.get_mut(&sid) {
            None => (9, 0),
            Some(r) => {
                let mut dst = vec![0u8; n as usize];
                let mut slice: &mut [u8] = &mut dst[..];
                let before = slice.remaining_mut();
                let res = r.poll_read(&mut cx, &mut slice);
                let got = before - slice.remaining_mut();
                match res {
                    Poll::Pending => (0, 0),
                    Poll::Ready(Ok(())) => (1, got as i128),
                    Poll::Ready(Err(e)) => se(e),
                }
            }
        },
        Kind::DgRecv => match st.dg_reader.poll_recv(&mut cx) {
            Poll::Pending => (0, 0),
            Poll::Ready(Ok(b)) => (1, b.len() as i128),
            Poll::Ready(Err(e)) => match io_eid(&e) {
                Some(id) => (2, id),
                None => (3, 0),
            },
        },
        Kind::PReady => {
            let params = st.params.clone();
            let mut f = std::pin::pin!(async move { params.remote_ready().await.map(|_| ()) });
            match Pin::new(&mut f).poll(&mut cx) {
                Poll::Pending => (0, 0),
                Poll::Ready(Ok(())) => (1, 0),
                Poll::Ready(Err(e)) => (2, eid_of(&e)),
            }
        }
    }
}

fn start_task(st: &mut St, o: &mut Obs, tid: usize, kind: Kind) {
    if let Some(slot) = kind.slot() {
        if st.tasks.iter().any(|t| t.kind.slot() == Some(slot)) {
            o.push(8).push(0);
            return;
        }
    }
    let cw = Arc::new(CountWaker(AtomicUsize::new(0)));
    let waker = Waker::from(cw.clone());
    let (code, val) = poll_task(st, kind, &waker);
    o.push(code).push(val);
    if code == 0 {
        let seen = 0;
        st.tasks.push(Task { tid, kind, cw, seen });
    }
}

fn stream_frame(sid: u64, off: u64, len: u64, fin: bool) -> (StreamFrame, Bytes) {
    let mut f = StreamFrame::new(StreamId::from(vi(sid)), off, len as usize);
    f.set_eos_flag(fin);
    (f, Bytes::from(vec![7u8; len as usize]))
}

fn is_peer_sid(st: &St, sid: u64) -> bool {
    let peer_bit = if st.role == Role::Client { 1 } else { 0 };
    sid & 1 == peer_bit
}

fn step(st: &mut St, op: &Op, idx: usize) -> Obs {
    let mut o = Obs::new();
    match op.tag {
        0 => {
            if st.hs_done {
                o.push(-2);
            } else {
                handshake(st);
                o.push(1);
            }
        }
        1 => start_task(st, &mut o, idx, Kind::Open(op.u(0).min(1))),
        2 => start_task(st, &mut o, idx, Kind::Accept(op.u(0).min(1))),
        3 => start_task(st, &mut o, idx, Kind::Write(op.u(0), op.u(1))),
        4 => start_task(st, &mut o, idx, Kind::Flush(op.u(0))),
        5 => start_task(st, &mut o, idx, Kind::Shutdown(op.u(0))),
        6 => start_task(st, &mut o, idx, Kind::Read(op.u(0), op.u(1))),
        7 => start_task(st, &mut o, idx, Kind::DgRecv),
        8 => match st.dg_writer.send_bytes(Bytes::from(vec![1u8; op.u(0) as usize])) {
            Ok(()) => {
                o.push(1).push(0);
            }
            Err(e) => match io_eid(&e) {
                Some(id) => {
                    o.push(2).push(id);
                }
                None => {
                    o.push(3).push(0);
                }
            },
        },
        9 => match st.writers.get_mut(&op.u(0)) {
            None => {
                o.push(9);
            }
            Some(w) => {
                w.cancel(5);
                o.push(0);
            }
        },
        10 => start_task(st, &mut o, idx, Kind::PReady),
        11 => {
            // the peer opens its next stream of that direction with an empty STREAM frame
            let d = op.u(0).min(1);
            let peer_bit = if st.role == Role::Client { 1 } else { 0 };
            let sid = (st.peer_next[d as usize] << 2) | (d << 1) | peer_bit;
            st.peer_next[d as usize] += 1;
            st.recv_track.insert(sid, RecvTrack { rcvd: 0, fin: None, reset: false });
            let r = st.ds.recv_frame(stream_frame(sid, 0, 0, false));
            o.push(if r.is_ok() { 0 } else { 1 }).push(sid as i128);
        }
        12 | 13 | 14 => {
            let sid = op.u(0);
            // only streams the peer may send on: its own, or our bidirectional ones
            let ok_dir = is_peer_sid(st, sid) || sid & 2 == 0;
            match st.recv_track.get_mut(&sid) {
                Some(t) if ok_dir && !t.reset => {
                    let r = match op.tag {
                        12 => {
                            let room = t.fin.map(|f| f - t.rcvd).unwrap_or(u64::MAX).min(50_000 - t.rcvd.min(50_000));
                            let len = op.u(1).min(room);
                            let fin = op.u(2) != 0 && t.fin.is_none_or(|f| f == t.rcvd + len);
                            let off = t.rcvd;
                            t.rcvd += len;
                            if fin {
                                t.fin = Some(t.rcvd);
                            }
                            o.push(len as i128);
                            st.ds.recv_frame(stream_frame(sid, off, len, fin)).map(|_| ())
                        }
                        13 => {
                            if t.fin.is_some() {
                                o.push(-1);
                                Ok(())
                            } else {
                                let g = op.u(1).min(1000);
                                t.fin = Some(t.rcvd + g);
                                o.push(g as i128);
                                st.ds.recv_frame(stream_frame(sid, t.rcvd + g, 0, true)).map(|_| ())
                            }
                        }
                        _ => {
                            let fin = t.fin.unwrap_or(t.rcvd);
                            t.reset = true;
                            o.push(fin as i128);
                            st.ds
                                .recv_frame(StreamCtlFrame::ResetStream(ResetStreamFrame::new(
                                    StreamId::from(vi(sid)),
                                    vi(3),
                                    vi(fin),
                                )))
                                .map(|_| ())
                        }
                    };
                    o.push(if r.is_ok() { 0 } else { 1 });
                }
                _ => {
                    o.push(-1).push(9);
                }
            }
        }
        15 | 16 => {
            let sid = op.u(0);
            // only streams we may send on: our own, or the peer's bidirectional ones that exist
            let ours = !is_peer_sid(st, sid);
            let idx_ok = if ours { true } else { sid & 2 == 0 && (sid >> 2) < st.peer_next[0] };
            if !idx_ok || (ours && !st.writers.contains_key(&sid)) {
                o.push(9);
            } else {
                let f = if op.tag == 15 {
                    StreamCtlFrame::StopSending(StopSendingFrame::new(StreamId::from(vi(sid)), vi(4)))
                } else {
                    StreamCtlFrame::MaxStreamData(MaxStreamDataFrame::new(
                        StreamId::from(vi(sid)),
                        vi(op.u(1).min(90_000)),
                    ))
                };
                let r = st.ds.recv_frame(f);
                o.push(if r.is_ok() { 0 } else { 1 });
            }
        }
        17 => {
            let d = if op.u(0) == 0 { Dir::Bi } else { Dir::Uni };
            let r = st.ds.recv_frame(StreamCtlFrame::MaxStreams(MaxStreamsFrame::with(d, vi(op.u(1).min(64)))));
            o.push(if r.is_ok() { 0 } else { 1 });
        }
        18 => {
            let mut bytes = 0usize;
            let mut fins = 0usize;
            let mut dgs = 0usize;
            for _ in 0..256 {
                let mut cap = Cap { left: 1200, buf: Vec::new(), frames: Vec::new(), datagrams: 0 };
                let _ = st.ds.try_load_data_into(&mut cap, &st.flow.sender, !st.hs_done);
                while st.dg.try_load_data_into(&mut cap).is_ok() {}
                if cap.frames.is_empty() && cap.datagrams == 0 {
                    break;
                }
                dgs += cap.datagrams;
                for f in cap.frames {
                    bytes += f.len();
                    fins += f.is_fin() as usize;
                    st.unacked.entry(sid_u(f.stream_id())).or_default().push(f);
                }
            }
            o.push_usize(bytes).push_usize(fins).push_usize(dgs);
        }
        19 => {
            let frames = st.unacked.remove(&op.u(0)).unwrap_or_default();
            o.push(0);
            for f in frames {
                st.ds.on_data_acked(f);
            }
        }
        20 => {
            let len = op.u(0).min(1000);
            let r = st.dg.recv_frame((DatagramFrame::new(true, vi(len)), Bytes::from(vec![2u8; len as usize])));
            match r {
                Ok(()) => o.push(0),
                Err(e) => o.push(2).push(eid_of(&e)),
            };
        }
        21 => {
            let e = error_of(op.u(0));
            fan_out(&st.ds, &st.dg, &st.params, &e);
            o.push(0);
        }
        22 => {
            st.flow.on_conn_error(&error_of(op.u(0)));
            o.push(0);
        }
        23 => match st.flow.send_limit(op.u(0) as usize) {
            Ok(c) => {
                o.push(1).push_usize(c.available());
            }
            Err(e) => {
                o.push(2).push(eid_of(&e));
            }
        },
        24 if op.args.len() == 3 && (op.u(1) == 1 || op.u(1) == 2) => {
            let kind = if op.u(1) == 1 { Kind::Open(op.u(2).min(1)) } else { Kind::Accept(op.u(2).min(1)) };
            race(st, &mut o, idx, kind, op.u(0));
        }
        _ => {
            o.push(-99);
            return o;
        }
    }
    // ---- which parked tasks were woken by the operation itself
    let woken: Vec<usize> = st
        .tasks
        .iter()
        .filter(|t| t.tid != idx && t.cw.0.load(Ordering::SeqCst) > t.seen)
        .map(|t| t.tid)
        .collect();
    o.push(-1).push_usize(woken.len());
    for t in &woken {
        o.push_usize(*t);
    }
    // ---- the executor: re-poll woken tasks (in task order) until nothing is woken any more
    let mut done: Vec<(usize, i128, i128)> = Vec::new();
    for _round in 0..64 {
        let ready: Vec<usize> = st
            .tasks
            .iter()
            .filter(|t| t.cw.0.load(Ordering::SeqCst) > t.seen)
            .map(|t| t.tid)
            .collect();
        if ready.is_empty() {
            break;
        }
        for tid in ready {
            let Some(pos) = st.tasks.iter().position(|t| t.tid == tid) else { continue };
            let (kind, cw) = (st.tasks[pos].kind, st.tasks[pos].cw.clone());
            st.tasks[pos].seen = cw.0.load(Ordering::SeqCst);
            let waker = Waker::from(cw);
            let (code, val) = poll_task(st, kind, &waker);
            if code != 0 {
                let pos = st.tasks.iter().position(|t| t.tid == tid).unwrap();
                st.tasks.remove(pos);
                done.push((tid, code, val));
            }
        }
    }
    o.push(-2).push_usize(done.len());
    for (t, c, v) in done {
        o.push_usize(t).push(c).push(v);
    }
    o
}

fn main() {
    let rt = tokio::runtime::Builder::new_current_thread()
        .enable_time()
        .start_paused(true)
        .build()
        .unwrap();
    let _g = rt.enter();
    let _ = Mutex::new(());
    hproto::run(new_case, step);
}
