(* Model of the stream data path of qrecovery, end to end (property C01).  Definitions only.

     Writer -> Sender (send/sender.rs, send/outgoing.rs, send/writer.rs) over Model.SendBuf
            -> STREAM / RESET_STREAM / STOP_SENDING frames in a pool the adversary owns
            -> Recver (recv/recver.rs, recv/incoming.rs, recv/reader.rs) over Model.RecvBuf -> Reader

   for the two endpoints of one connection (side 0 = client, side 1 = server), every stream opened
   by the client.  Stream j carries the flow with key 2j (client to server) and, when bidirectional,
   the flow with key 2j+1 (server to client).  The byte at position p of the flow with key k is
   [content (p + 7919 * (k + 1))]; the harness binary impl_stream_e2e writes the same bytes.

   One flow is a sender and a recver ([flow_step]: every call the Rust makes on them, branch by
   branch, including which frame goes out in which state, when FIN is attached, what an
   acknowledgement of the FIN-only frame does, when flush / shutdown are Ready and when the reader
   reports the end).  The system ([sys_step]) adds what is shared: the pool, the Output.cursor
   round robin of try_load_data_into_once (raw.rs) per endpoint, the streams the server has learnt
   of (try_accept_sid), the removal of finished streams from DataStreams.output / input.

   Ghost state (never printed, never read by the transitions): [rc_got] all bytes handed to the
   reader, [rc_eos] the reader was told the stream ended, [sn_shutcalled] poll_shutdown was called,
   the [final] argument of [RDataRcvd].  Explicit failure outcomes: code -7 = a debug assertion /
   unreachable!() of the Rust fires (the harness reports the panic). *)
From Coq Require Import List NArith ZArith Bool.
From GQ Require Export Lib.Base.
From GQ Require Import Model.SendBuf Model.RecvBuf.
From GQ Require Model.StreamCtl Model.Sid Model.Flow.
Import ListNotations.
Local Open Scope N_scope.

(* ---------------------------------------------------------------- sender *)
Inductive sstate := SReady | SSending | SDataSent | SDataRcvd | SResetSent | SResetRcvd.
Inductive finst := FinSent | FinLost | FinRcvd.

Record sender := mksnd {
  sn_st : sstate; sn_buf : sndbuf; sn_fin : finst;
  sn_shutw : bool;        (* shutdown_waker.is_some(): this IS the "shutdown requested" flag of the Rust *)
  sn_flushw : bool;       (* flush_waker.is_some() *)
  sn_writew : bool;       (* writable_waker.is_some() *)
  sn_wakes : N;           (* wake-ups delivered to the writer's waker *)
  sn_inset : bool;        (* still a member of DataStreams.output *)
  sn_shutcalled : bool }. (* ghost *)

Definition new_sender (w : N) : sender :=
  mksnd SReady (with_capacity w) FinSent false false false 0 true false.

Definition b2n (b : bool) : N := if b then 1 else 0.

Definition snd_set_buf (s : sender) (b : sndbuf) : sender :=
  mksnd (sn_st s) b (sn_fin s) (sn_shutw s) (sn_flushw s) (sn_writew s) (sn_wakes s) (sn_inset s) (sn_shutcalled s).
Definition snd_set_st (s : sender) (st : sstate) : sender :=
  mksnd st (sn_buf s) (sn_fin s) (sn_shutw s) (sn_flushw s) (sn_writew s) (sn_wakes s) (sn_inset s) (sn_shutcalled s).
Definition snd_set_fin (s : sender) (f : finst) : sender :=
  mksnd (sn_st s) (sn_buf s) f (sn_shutw s) (sn_flushw s) (sn_writew s) (sn_wakes s) (sn_inset s) (sn_shutcalled s).

Definition has_remaining (b : sndbuf) : bool := written b <? max_data b.

(* Writer::poll_write (poll_ready then write) *)
Definition snd_poll_write (s : sender) (n : N) : sender * Z :=
  match sn_st s with
  | SReady | SSending =>
    if sn_shutw s then (s, 2%Z)
    else if negb (has_remaining (sn_buf s)) then
      (mksnd (sn_st s) (sn_buf s) (sn_fin s) (sn_shutw s) (sn_flushw s) true (sn_wakes s) (sn_inset s) (sn_shutcalled s), 0%Z)
    else match write (sn_buf s) n with
         | Some b => (snd_set_buf s b, 1%Z)
         | None => (s, (-7)%Z)
         end
  | SDataSent | SDataRcvd => (s, 2%Z)
  | SResetSent | SResetRcvd => (s, 3%Z)
  end.

(* Writer::poll_flush *)
Definition snd_poll_flush (s : sender) : sender * Z :=
  match sn_st s with
  | SReady | SSending =>
    if is_all_rcvd (sn_buf s) then (s, 1%Z)
    else (mksnd (sn_st s) (sn_buf s) (sn_fin s) (sn_shutw s) true (sn_writew s) (sn_wakes s) (sn_inset s) (sn_shutcalled s), 0%Z)
  | SDataSent =>
    (mksnd (sn_st s) (sn_buf s) (sn_fin s) (sn_shutw s) true (sn_writew s) (sn_wakes s) (sn_inset s) (sn_shutcalled s), 0%Z)
  | SDataRcvd => (s, 1%Z)
  | SResetSent | SResetRcvd => (s, 3%Z)
  end.

(* Writer::poll_shutdown *)
Definition snd_poll_shutdown (s : sender) : sender * Z :=
  match sn_st s with
  | SReady | SSending | SDataSent =>
    (mksnd (sn_st s) (sn_buf s) (sn_fin s) true (sn_flushw s) (sn_writew s) (sn_wakes s) (sn_inset s) true, 0%Z)
  | SDataRcvd => (s, 1%Z)
  | SResetSent | SResetRcvd => (s, 3%Z)
  end.

(* Writer::cancel: the final size of the RESET_STREAM frame; the parked wakers are dropped, not woken *)
Definition snd_cancel (s : sender) : sender * option N :=
  match sn_st s with
  | SReady | SSending | SDataSent =>
    (mksnd SResetSent (sn_buf s) (sn_fin s) false false false (sn_wakes s) (sn_inset s) (sn_shutcalled s),
     Some (sent (sn_buf s)))
  | _ => (s, None)
  end.

(* Outgoing::be_stopped: wake_all, then ResetSent; the final size of the RESET_STREAM answer *)
Definition snd_be_stopped (s : sender) : sender * option N :=
  match sn_st s with
  | SReady | SSending =>
    (mksnd SResetSent (sn_buf s) (sn_fin s) false false false
           (sn_wakes s + b2n (sn_writew s) + b2n (sn_flushw s) + b2n (sn_shutw s)) (sn_inset s) (sn_shutcalled s),
     Some (sent (sn_buf s)))
  | SDataSent =>
    (mksnd SResetSent (sn_buf s) (sn_fin s) false false false
           (sn_wakes s + b2n (sn_flushw s) + b2n (sn_shutw s)) (sn_inset s) (sn_shutcalled s),
     Some (written (sn_buf s)))
  | _ => (s, None)
  end.

(* what one Outgoing::try_load_data_into puts into the packet: range, fresh, eos, bytes *)
Record pickd := mkpick { pk_start : N; pk_end : N; pk_fresh : bool; pk_eos : bool; pk_data : list Z }.

Definition to_data_sent (s : sender) (b : sndbuf) : sender :=
  mksnd SDataSent b FinSent (sn_shutw s) (sn_flushw s) false (sn_wakes s) (sn_inset s) (sn_shutcalled s).

(* Outgoing::try_load_data_into; [pred] = tokens.min(estimate_max_capacity), [flow] = connection credit *)
Definition snd_try_load (c : N -> Z) (s : sender) (pred : N -> option N) (flow : N) : sender * option pickd :=
  match sn_st s with
  | SReady | SSending =>
    let s1 := snd_set_st s SSending in
    let b := sn_buf s in
    match pick_up c b pred flow with
    | UpOk b' st e fr d =>
      let eos := sn_shutw s && (e =? written b) in
      (if eos then to_data_sent s1 b' else snd_set_buf s1 b', Some (mkpick st e fr eos d))
    | UpErr _ _ _ =>
      if sn_shutw s && (written b =? sent b) then
        match pred (sent b) with
        | Some _ => (to_data_sent s1 b, Some (mkpick (sent b) (sent b) false true []))
        | None => (s1, None)
        end
      else (s1, None)
    | UpPV => (s1, None)
    end
  | SDataSent =>
    let b := sn_buf s in
    match pick_up c b pred flow with
    | UpOk b' st e fr d => (snd_set_buf s b', Some (mkpick st e fr (e =? written b) d))
    | UpErr _ _ _ =>
      match sn_fin s with
      | FinLost => (snd_set_fin s FinSent, Some (mkpick (written b) (written b) false true []))
      | _ => (s, None)
      end
    | UpPV => (s, None)
    end
  | _ => (s, None)
  end.

(* Outgoing::on_data_acked for a frame [off, off+len) with / without FIN; false = panic in the Rust *)
Definition snd_on_acked (s : sender) (off len : N) (fin : bool) : sender * bool :=
  match sn_st s with
  | SReady => (s, false)
  | SSending =>
    match on_data_acked (sn_buf s) off (off + len) with
    | None => (s, false)
    | Some b =>
      if is_all_rcvd b && sn_flushw s then
        (mksnd SSending b (sn_fin s) (sn_shutw s) false (sn_writew s) (sn_wakes s + 1) (sn_inset s) (sn_shutcalled s), true)
      else (snd_set_buf s b, true)
    end
  | SDataSent =>
    match on_data_acked (sn_buf s) off (off + len) with
    | None => (s, false)
    | Some b =>
      let f := if fin then FinRcvd else sn_fin s in
      if is_all_rcvd b && (match f with FinRcvd => true | _ => false end) then
        (mksnd SDataRcvd b f false false false
               (sn_wakes s + b2n (sn_flushw s) + b2n (sn_shutw s)) false (sn_shutcalled s), true)
      else (mksnd SDataSent b f (sn_shutw s) (sn_flushw s) (sn_writew s) (sn_wakes s) (sn_inset s) (sn_shutcalled s), true)
    end
  | _ => (s, true)
  end.

(* Outgoing::may_loss_data *)
Definition snd_may_loss (s : sender) (off len : N) (fin : bool) : sender * bool :=
  match sn_st s with
  | SReady => (s, false)
  | SSending =>
    match may_loss_data (sn_buf s) off (off + len) with
    | None => (s, false)
    | Some b => (snd_set_buf s b, true)
    end
  | SDataSent =>
    let f := if fin && negb (match sn_fin s with FinRcvd => true | _ => false end) then FinLost else sn_fin s in
    match may_loss_data (sn_buf s) off (off + len) with
    | None => (snd_set_fin s f, false)
    | Some b => (mksnd SDataSent b f (sn_shutw s) (sn_flushw s) (sn_writew s) (sn_wakes s) (sn_inset s) (sn_shutcalled s), true)
    end
  | _ => (s, true)
  end.

(* Outgoing::on_reset_acked (DataStreams::on_reset_acked removed the stream from the output set) *)
Definition snd_on_reset_acked (s : sender) : sender * bool :=
  match sn_st s with
  | SResetSent | SResetRcvd =>
    (mksnd SResetRcvd (sn_buf s) (sn_fin s) (sn_shutw s) (sn_flushw s) (sn_writew s) (sn_wakes s) false (sn_shutcalled s), true)
  | _ => (s, false)
  end.

(* ---------------------------------------------------------------- recver *)
Inductive rstate :=
| RRecv | RSizeKnown (final : N) | RDataRcvd (final : N) | RDataRead | RResetRcvd | RResetRead.

Record recver := mkrcv {
  rc_st : rstate; rc_buf : rcvbuf; rc_largest : N; rc_maxsd : N;
  rc_readw : bool;        (* read_waker.is_some() *)
  rc_wakes : N;           (* wake-ups delivered to the reader's waker *)
  rc_stopped : bool;      (* stop_state.is_some() *)
  rc_inset : bool;        (* still a member of DataStreams.input *)
  rc_got : list Z;        (* ghost: every byte handed to the application, in order *)
  rc_eos : bool }.        (* ghost: a read into a non-empty buffer completed with 0 bytes *)

Definition new_recver (w : N) : recver := mkrcv RRecv empty_buf 0 w false 0 false true [] false.

Inductive rerr := EFlowControl | EFinalSize.
Definition rerr_code (e : rerr) : Z := match e with EFlowControl => 3 | EFinalSize => 6 end%Z.

Definition all_rcvd (b : rcvbuf) (final : N) : bool := nread b + available b =? final.

(* wake the parked reader, if any *)
Definition rc_wake (readw : bool) (wakes : N) : bool * N := (false, wakes + b2n readw).

(* Incoming::recv_data: new state and the fresh byte count, or the connection error *)
Definition rc_recv_data (r : recver) (off : N) (data : list Z) (fin : bool) : (recver * N) + rerr :=
  let data_end := off + lenN data in
  match rc_st r with
  | RRecv =>
    if fin then
      (* Recv::determin_size (wakes the reader first), SizeKnown::recv, maybe upgrade *)
      let '(rw, wk) := rc_wake (rc_readw r) (rc_wakes r) in
      if rc_maxsd r <? data_end then inr EFlowControl
      else if data_end <? largest (rc_buf r) then inr EFinalSize
      else
        let '(b', fresh) := recv (rc_buf r) off data in
        if all_rcvd b' data_end
        then inl (mkrcv (RDataRcvd data_end) b' (rc_largest r) (rc_maxsd r) rw wk (rc_stopped r) false (rc_got r) (rc_eos r), fresh)
        else inl (mkrcv (RSizeKnown data_end) b' (rc_largest r) (rc_maxsd r) rw wk (rc_stopped r) true (rc_got r) (rc_eos r), fresh)
    else
      if rc_maxsd r <? data_end then inr EFlowControl
      else
        let '(b', fresh) := recv (rc_buf r) off data in
        let '(rw, wk) := if is_readable b' then rc_wake (rc_readw r) (rc_wakes r) else (rc_readw r, rc_wakes r) in
        inl (mkrcv RRecv b' (N.max (rc_largest r) data_end) (rc_maxsd r) rw wk (rc_stopped r) true (rc_got r) (rc_eos r), fresh)
  | RSizeKnown final =>
    if final <? data_end then inr EFinalSize
    else if fin && negb (data_end =? final) then inr EFinalSize
    else
      let '(b', fresh) := recv (rc_buf r) off data in
      let '(rw, wk) := if is_readable b' then rc_wake (rc_readw r) (rc_wakes r) else (rc_readw r, rc_wakes r) in
      if all_rcvd b' final
      then let '(rw2, wk2) := rc_wake rw wk in
           inl (mkrcv (RDataRcvd final) b' (rc_largest r) (rc_maxsd r) rw2 wk2 (rc_stopped r) false (rc_got r) (rc_eos r), fresh)
      else inl (mkrcv (RSizeKnown final) b' (rc_largest r) (rc_maxsd r) rw wk (rc_stopped r) true (rc_got r) (rc_eos r), fresh)
  | _ => inl (r, 0)
  end.

(* Incoming::recv_reset; DataStreams::recv_stream_control removed the stream from the input set first *)
Definition rc_recv_reset (r : recver) (final : N) : (recver * N) + rerr :=
  match rc_st r with
  | RRecv =>
    if rc_maxsd r <? final then inr EFlowControl
    else if final <? rc_largest r then inr EFinalSize
    else let '(rw, wk) := rc_wake (rc_readw r) (rc_wakes r) in
         inl (mkrcv RResetRcvd (rc_buf r) (rc_largest r) (rc_maxsd r) rw wk (rc_stopped r) false (rc_got r) (rc_eos r),
              final - rc_largest r)
  | RSizeKnown f =>
    if negb (final =? f) then inr EFinalSize
    else let '(rw, wk) := rc_wake (rc_readw r) (rc_wakes r) in
         inl (mkrcv RResetRcvd (rc_buf r) (rc_largest r) (rc_maxsd r) rw wk (rc_stopped r) false (rc_got r) (rc_eos r), 0)
  | _ => inl (r, 0)
  end.

Definition with_read (r : recver) (st : rstate) (b : rcvbuf) (maxsd : N) (readw : bool) (out : list Z) (room : N) : recver :=
  mkrcv st b (rc_largest r) maxsd readw (rc_wakes r) (rc_stopped r) (rc_inset r)
        (rc_got r ++ out) (rc_eos r || ((lenN out =? 0) && negb (room =? 0))).

(* Reader::poll_read once into [room] bytes: state, code (0 Pending, 1 Ready(Ok), 3 reset error), bytes *)
Definition rc_poll_read (r : recver) (room : N) : recver * Z * list Z :=
  match rc_st r with
  | RRecv =>
    if is_readable (rc_buf r) then
      let '(b', out) := try_read (rc_buf r) room in
      let m := N.min (nread b' + 2000000) Flow.VARINT_MAX in
      let maxsd := if (rc_maxsd r <? nread b' + 1000000) && (rc_maxsd r <? m) then m else rc_maxsd r in
      (with_read r RRecv b' maxsd (rc_readw r) out room, 1%Z, out)
    else (mkrcv RRecv (rc_buf r) (rc_largest r) (rc_maxsd r) true (rc_wakes r) (rc_stopped r) (rc_inset r) (rc_got r) (rc_eos r),
          0%Z, [])
  | RSizeKnown f =>
    if is_readable (rc_buf r) then
      let '(b', out) := try_read (rc_buf r) room in
      (with_read r (RSizeKnown f) b' (rc_maxsd r) (rc_readw r) out room, 1%Z, out)
    else (mkrcv (RSizeKnown f) (rc_buf r) (rc_largest r) (rc_maxsd r) true (rc_wakes r) (rc_stopped r) (rc_inset r) (rc_got r) (rc_eos r),
          0%Z, [])
  | RDataRcvd f =>
    let '(b', out) := try_read (rc_buf r) room in
    let st := match segs b' with [] => RDataRead | _ => RDataRcvd f end in
    (with_read r st b' (rc_maxsd r) (rc_readw r) out room, 1%Z, out)
  | RDataRead => (with_read r RDataRead (rc_buf r) (rc_maxsd r) (rc_readw r) [] room, 1%Z, [])
  | RResetRcvd =>
    (mkrcv RResetRead (rc_buf r) (rc_largest r) (rc_maxsd r) (rc_readw r) (rc_wakes r) (rc_stopped r) (rc_inset r) (rc_got r) (rc_eos r),
     3%Z, [])
  | RResetRead => (r, 3%Z, [])
  end.

(* Reader::stop: true = a STOP_SENDING frame goes out *)
Definition rc_stop (r : recver) : recver * bool :=
  match rc_st r with
  | RRecv | RSizeKnown _ =>
    if rc_stopped r then (r, false)
    else (mkrcv (rc_st r) (rc_buf r) (rc_largest r) (rc_maxsd r) (rc_readw r) (rc_wakes r) true (rc_inset r) (rc_got r) (rc_eos r), true)
  | _ => (r, false)
  end.

(* ---------------------------------------------------------------- one flow *)
Record flow := mkflow { fl_snd : sender; fl_rcv : recver }.

Definition new_flow (w : N) : flow := mkflow (new_sender w) (new_recver w).

(* frames of one flow.  A STOP_SENDING frame is filed under the flow it asks to stop. *)
Inductive fframe :=
| FrS (off len : N) (fin : bool) (data : list Z)
| FrR (err final : N)
| FrStop (err : N).

Inductive fop :=
| FWrite (n : N) | FFlush | FShutdown | FCancel (err : N)
| FRead (room : N) | FStop (err : N)
| FTry (pred : N -> option N) (credit : N)
| FDeliverS (off : N) (data : list Z) (fin : bool) | FDeliverR (final : N) | FDeliverStop (err : N)
| FAck (off len : N) (fin : bool) | FAckReset | FLose (off len : N) (fin : bool).

(* result of a flow operation *)
Record fout := mkfout { fo_code : Z; fo_bytes : list Z; fo_fresh : N; fo_pick : option pickd; fo_err : bool }.
Definition out_code (z : Z) : fout := mkfout z [] 0 None false.

Definition flow_step (c : N -> Z) (fl : flow) (o : fop) : flow * list fframe * fout :=
  let s := fl_snd fl in
  let r := fl_rcv fl in
  match o with
  | FWrite n => let '(s', z) := snd_poll_write s n in (mkflow s' r, [], out_code z)
  | FFlush => let '(s', z) := snd_poll_flush s in (mkflow s' r, [], out_code z)
  | FShutdown => let '(s', z) := snd_poll_shutdown s in (mkflow s' r, [], out_code z)
  | FCancel err =>
    let '(s', f) := snd_cancel s in
    (mkflow s' r, match f with Some fs => [FrR err fs] | None => [] end, out_code 1)
  | FRead room =>
    let '(r', z, out) := rc_poll_read r room in
    (mkflow s r', [], mkfout z out 0 None false)
  | FStop err =>
    let '(r', b) := rc_stop r in
    (mkflow s r', if b then [FrStop err] else [], out_code 1)
  | FTry pred credit =>
    let '(s', p) := snd_try_load c s pred credit in
    (mkflow s' r,
     match p with Some k => [FrS (pk_start k) (pk_end k - pk_start k) (pk_eos k) (pk_data k)] | None => [] end,
     mkfout 0 [] 0 p false)
  | FDeliverS off data fin =>
    if rc_inset r then
      match rc_recv_data r off data fin with
      | inl (r', fresh) => (mkflow s r', [], mkfout 0 [] fresh None false)
      | inr e => (fl, [], mkfout (rerr_code e) [] 0 None true)
      end
    else (fl, [], out_code 0)
  | FDeliverR final =>
    if rc_inset r then
      let r0 := mkrcv (rc_st r) (rc_buf r) (rc_largest r) (rc_maxsd r) (rc_readw r) (rc_wakes r) (rc_stopped r) false (rc_got r) (rc_eos r) in
      match rc_recv_reset r0 final with
      | inl (r', fresh) => (mkflow s r', [], mkfout 0 [] fresh None false)
      | inr e => (mkflow s r0, [], mkfout (rerr_code e) [] 0 None true)
      end
    else (fl, [], out_code 0)
  | FDeliverStop err =>
    if sn_inset s then
      let '(s', f) := snd_be_stopped s in
      (mkflow s' r, match f with Some fs => [FrR err fs] | None => [] end, out_code 0)
    else (fl, [], out_code 0)
  | FAck off len fin =>
    if sn_inset s then
      let '(s', ok) := snd_on_acked s off len fin in
      (mkflow s' r, [], out_code (if ok then 1 else (-7))%Z)
    else (fl, [], out_code 1)
  | FAckReset =>
    if sn_inset s then
      let '(s', ok) := snd_on_reset_acked s in
      (mkflow s' r, [], out_code (if ok then 1 else (-7))%Z)
    else (fl, [], out_code 1)
  | FLose off len fin =>
    if sn_inset s then
      let '(s', ok) := snd_may_loss s off len fin in
      (mkflow s' r, [], out_code (if ok then 1 else (-7))%Z)
    else (fl, [], out_code 1)
  end.

(* ---------------------------------------------------------------- the two endpoints *)
Definition cof (key : N) (i : N) : Z := content (i + 7919 * (key + 1)).

Record sys := mksys {
  sy_rot : bool;                      (* variant: the repaired cursor order (finding F60), see [load_order] *)
  sy_w : N;
  sy_dirs : list N;                   (* stream j: 0 bidirectional / 1 unidirectional *)
  sy_flows : list (N * flow);         (* key 2j + side -> flow; ascending keys *)
  sy_cur0 : option (N * N);           (* Output.cursor of the client: (sid, tokens) *)
  sy_cur1 : option (N * N);
  sy_kbi : N; sy_kuni : N;            (* streams of each direction the server has learnt of *)
  sy_pool : list (N * fframe);        (* (flow key, frame), in emission order *)
  sy_closed : bool }.

Definition nthN {A} (l : list A) (i : N) : option A := nth_error l (N.to_nat i).

(* number of streams of direction [d] among the first [j] *)
Fixpoint count_dir (dirs : list N) (d : N) (j : nat) : N :=
  match j, dirs with
  | S j', x :: t => (if x =? d then 1 else 0) + count_dir t d j'
  | _, _ => 0
  end.
Definition idx_of (dirs : list N) (j : N) : N :=
  match nthN dirs j with
  | Some d => count_dir dirs d (N.to_nat j)
  | None => 0
  end.
Definition sid_of_stream (dirs : list N) (j : N) : N :=
  match nthN dirs j with
  | Some d => Sid.sid_of Sid.Client (if d =? 0 then Sid.Bi else Sid.Uni) (idx_of dirs j)
  | None => 0
  end.

Fixpoint init_flows (w : N) (dirs : list N) (j : N) : list (N * flow) :=
  match dirs with
  | [] => []
  | d :: t =>
    (2 * j, new_flow w) :: (if d =? 0 then [(2 * j + 1, new_flow w)] else []) ++ init_flows w t (j + 1)
  end.

Definition sys_init (rot : bool) (w : N) (dirs : list N) : sys :=
  mksys rot w dirs (init_flows w dirs 0) None None 0 0 [] false.

Definition key_side (k : N) : N := k mod 2.
Definition key_stream (k : N) : N := k / 2.

(* the server knows stream j *)
Definition known (s : sys) (j : N) : bool :=
  match nthN (sy_dirs s) j with
  | Some d => idx_of (sy_dirs s) j <? (if d =? 0 then sy_kbi s else sy_kuni s)
  | None => false
  end.

(* the application at [side] holds the Writer of flow (side, j) / the Reader of flow (1 - side, j) *)
Definition has_writer (s : sys) (side j : N) : bool :=
  match nthN (sy_dirs s) j with
  | Some d => if side =? 0 then true else (d =? 0) && known s j
  | None => false
  end.
Definition has_reader (s : sys) (side j : N) : bool :=
  match nthN (sy_dirs s) j with
  | Some d => if side =? 0 then d =? 0 else known s j
  | None => false
  end.

Definition set_flows (s : sys) (f : list (N * flow)) : sys :=
  mksys (sy_rot s) (sy_w s) (sy_dirs s) f (sy_cur0 s) (sy_cur1 s) (sy_kbi s) (sy_kuni s) (sy_pool s) (sy_closed s).
Definition set_pool (s : sys) (p : list (N * fframe)) : sys :=
  mksys (sy_rot s) (sy_w s) (sy_dirs s) (sy_flows s) (sy_cur0 s) (sy_cur1 s) (sy_kbi s) (sy_kuni s) p (sy_closed s).
Definition set_cursor (s : sys) (side : N) (c : option (N * N)) : sys :=
  if side =? 0
  then mksys (sy_rot s) (sy_w s) (sy_dirs s) (sy_flows s) c (sy_cur1 s) (sy_kbi s) (sy_kuni s) (sy_pool s) (sy_closed s)
  else mksys (sy_rot s) (sy_w s) (sy_dirs s) (sy_flows s) (sy_cur0 s) c (sy_kbi s) (sy_kuni s) (sy_pool s) (sy_closed s).
Definition set_closed (s : sys) : sys :=
  mksys (sy_rot s) (sy_w s) (sy_dirs s) (sy_flows s) (sy_cur0 s) (sy_cur1 s) (sy_kbi s) (sy_kuni s) (sy_pool s) true.

(* a frame of stream j reaches the server: try_accept_sid creates every stream up to it *)
Definition learn (s : sys) (j : N) : sys :=
  match nthN (sy_dirs s) j with
  | Some d =>
    let i := idx_of (sy_dirs s) j + 1 in
    if d =? 0
    then mksys (sy_rot s) (sy_w s) (sy_dirs s) (sy_flows s) (sy_cur0 s) (sy_cur1 s) (N.max (sy_kbi s) i) (sy_kuni s) (sy_pool s) (sy_closed s)
    else mksys (sy_rot s) (sy_w s) (sy_dirs s) (sy_flows s) (sy_cur0 s) (sy_cur1 s) (sy_kbi s) (N.max (sy_kuni s) i) (sy_pool s) (sy_closed s)
  | None => s
  end.

(* apply a flow operation to the flow [key]; the frames it produces join the pool *)
Definition on_flow (s : sys) (key : N) (o : fop) : option (sys * list fframe * fout) :=
  match StreamCtl.alookup (sy_flows s) key with
  | None => None
  | Some fl =>
    let '(fl', fr, out) := flow_step (cof key) fl o in
    Some (set_pool (set_flows s (StreamCtl.aupdate (sy_flows s) key fl'))
                   (sy_pool s ++ map (fun f => (key, f)) fr), fr, out)
  end.

(* ---- packet loading: DataStreams::try_load_data_into_once *)
(* members of DataStreams.output at [side]: (sid, flow key), ascending sid *)
Definition outgoing_keys (s : sys) (side : N) : list (N * N) :=
  fold_right (fun (kf : N * flow) acc =>
                let k := fst kf in
                if (key_side k =? side) && sn_inset (fl_snd (snd kf))
                   && ((side =? 0) || known s (key_stream k))
                then StreamCtl.ainsert acc (sid_of_stream (sy_dirs s) (key_stream k)) k
                else acc) [] (sy_flows s).

(* visiting order: (sid, tokens).  As coded, a cursor stream that has used up its tokens is visited FIRST
   again with fresh tokens (rev([..=sid]) ++ rev([sid+1..]): finding F60, no rotation); with [rot] it goes
   to the back of the round (rev([..sid]) ++ rev([sid..])), the order of the prepared repair. *)
Definition load_order (rot : bool) (cursor : option (N * N)) (keys : list N) : list (N * N) :=
  let all := map (fun k => (k, StreamCtl.DEFAULT_TOKENS)) in
  match cursor with
  | None => all (rev keys)
  | Some (c, tok) =>
    if tok =? 0 then
      if rot then all (rev (filter (fun k => k <? c) keys) ++ rev (filter (fun k => c <=? k) keys))
      else all (rev (filter (fun k => k <=? c) keys) ++ rev (filter (fun k => c <? k) keys))
    else
      (if existsb (N.eqb c) keys then [(c, tok)] else [])
      ++ all (rev (filter (fun k => k <? c) keys) ++ rev (filter (fun k => c <? k) keys))
  end.

Definition pred_of_packet (cap sid tok : N) (off : N) : option N :=
  match StreamCtl.est_cap cap sid off with
  | Some x => Some (N.min tok x)
  | None => None
  end.

(* tries the streams in order; a failed attempt still moves a Ready sender to Sending *)
Fixpoint try_streams (s : sys) (skeys : list (N * N)) (order : list (N * N)) (cap credit : N)
  : sys * option (N * N * N * pickd) :=
  match order with
  | [] => (s, None)
  | (sid, tok) :: rest =>
    match StreamCtl.alookup skeys sid with
    | None => try_streams s skeys rest cap credit
    | Some key =>
      match on_flow s key (FTry (pred_of_packet cap sid tok) credit) with
      | None => try_streams s skeys rest cap credit
      | Some (s', _, out) =>
        match fo_pick out with
        | Some p => (s', Some (key, sid, tok, p))
        | None => try_streams s' skeys rest cap credit
        end
      end
    end
  end.

Definition emit (s : sys) (side cap flowlim : N) : sys * option (N * N * pickd) :=
  if cap <? StreamCtl.STREAM_FRAME_MAX then (s, None)
  else
    let skeys := outgoing_keys s side in
    let order := load_order (sy_rot s) (if side =? 0 then sy_cur0 s else sy_cur1 s) (map fst skeys) in
    match try_streams s skeys order cap (N.min flowlim cap) with
    | (s', Some (key, sid, tok, p)) =>
      (set_cursor s' side (Some (sid, tok - (pk_end p - pk_start p))), Some (key, sid, p))
    | (s', None) => (s', None)
    end.

(* ---------------------------------------------------------------- operations and observations *)
Inductive op :=
| OWrite (side j n : N) | OFlush (side j : N) | OShutdown (side j : N) | ORead (side j n : N)
| OReset (side j err : N) | OStop (side j err : N)
| OEmit (side cap flow : N)
| ODeliver (i : N) | OAck (i : N) | OLose (i : N).

Definition zb (b : bool) : Z := if b then 1%Z else 0%Z.

Definition hash (d : list Z) : Z := fold_left (fun h b => ((h * 31 + b + 1) mod 1000000007)%Z) d 0%Z.

Definition frame_words (sid : N) (f : fframe) : list Z :=
  match f with
  | FrS off len fin d => [1%Z; Z.of_N sid; Z.of_N off; Z.of_N len; zb fin; hash d]
  | FrR err final => [2%Z; Z.of_N sid; Z.of_N err; Z.of_N final; 0%Z; 0%Z]
  | FrStop err => [3%Z; Z.of_N sid; Z.of_N err; 0%Z; 0%Z; 0%Z]
  end.
Definition frames_words (sid : N) (fs : list fframe) : list Z :=
  Z.of_N (lenN fs) :: flat_map (frame_words sid) fs.

Definition wakes_of (s : sys) (key : N) : list Z :=
  match StreamCtl.alookup (sy_flows s) key with
  | Some fl => [Z.of_N (sn_wakes (fl_snd fl)); Z.of_N (rc_wakes (fl_rcv fl))]
  | None => [0%Z; 0%Z]
  end.

(* an application / feedback call on one flow: the common shape of the observation *)
Definition app_call (s : sys) (key : N) (o : fop) (extra : fout -> list Z) : sys * list Z :=
  match on_flow s key o with
  | None => (s, [9%Z; 0%Z; 0%Z] ++ extra (out_code 9) ++ [0%Z])
  | Some (s', fr, out) =>
    let s2 := if fo_err out then set_closed s' else s' in
    (s2, [fo_code out] ++ wakes_of s' key ++ extra out
         ++ frames_words (sid_of_stream (sy_dirs s) (key_stream key)) fr)
  end.

Definition no_extra (_ : fout) : list Z := [].
Definition read_extra (o : fout) : list Z := Z.of_N (lenN (fo_bytes o)) :: fo_bytes o.
Definition fresh_extra (o : fout) : list Z := [Z.of_N (fo_fresh o)].

Definition missing (s : sys) (side j fside : N) (extra : list Z) : sys * list Z :=
  (s, [9%Z] ++ (if (side <? 2) && (j <? lenN (sy_dirs s)) then wakes_of s (2 * j + fside) else [0%Z; 0%Z])
      ++ extra ++ [0%Z]).

Definition sys_step (s : sys) (o : op) : sys * list Z :=
  if sy_closed s then (s, [(-1)%Z]) else
  match o with
  | OWrite side j n =>
    if (side <? 2) && has_writer s side j then app_call s (2 * j + side) (FWrite n) no_extra
    else missing s side j side []
  | OFlush side j =>
    if (side <? 2) && has_writer s side j then app_call s (2 * j + side) FFlush no_extra
    else missing s side j side []
  | OShutdown side j =>
    if (side <? 2) && has_writer s side j then app_call s (2 * j + side) FShutdown no_extra
    else missing s side j side []
  | OReset side j err =>
    if (side <? 2) && has_writer s side j then app_call s (2 * j + side) (FCancel err) no_extra
    else missing s side j side []
  | ORead side j n =>
    if (side <? 2) && has_reader s side j then app_call s (2 * j + (1 - side)) (FRead n) read_extra
    else missing s side j (1 - side) [0%Z]
  | OStop side j err =>
    if (side <? 2) && has_reader s side j then app_call s (2 * j + (1 - side)) (FStop err) no_extra
    else missing s side j (1 - side) []
  | OEmit side cap flow =>
    if side <? 2 then
      match emit s side cap flow with
      | (s', Some (key, sid, p)) =>
        (s', [1%Z; 0%Z; 0%Z] ++ frames_words sid [FrS (pk_start p) (pk_end p - pk_start p) (pk_eos p) (pk_data p)])
      | (s', None) => (s', [0%Z; 0%Z; 0%Z; 0%Z])
      end
    else (s, [9%Z; 0%Z; 0%Z; 0%Z])
  | ODeliver i =>
    match nthN (sy_pool s) i with
    | None => (s, [8%Z; 0%Z; 0%Z; 0%Z; 0%Z])
    | Some (key, f) =>
      (* STREAM / RESET_STREAM travel with the flow; STOP_SENDING travels against it *)
      let to_server := match f with FrStop _ => key_side key =? 1 | _ => key_side key =? 0 end in
      let s1 := if to_server then learn s (key_stream key) else s in
      match f with
      | FrS off len fin d => app_call s1 key (FDeliverS off d fin) fresh_extra
      | FrR err final => app_call s1 key (FDeliverR final) fresh_extra
      | FrStop err => app_call s1 key (FDeliverStop err) fresh_extra
      end
    end
  | OAck i =>
    match nthN (sy_pool s) i with
    | None => (s, [8%Z; 0%Z; 0%Z; 0%Z])
    | Some (key, f) =>
      match f with
      | FrS off len fin d => app_call s key (FAck off len fin) no_extra
      | FrR err final => app_call s key FAckReset no_extra
      | FrStop err => (s, [1%Z] ++ wakes_of s key ++ [0%Z])
      end
    end
  | OLose i =>
    match nthN (sy_pool s) i with
    | None => (s, [8%Z; 0%Z; 0%Z; 0%Z])
    | Some (key, f) =>
      match f with
      | FrS off len fin d => app_call s key (FLose off len fin) no_extra
      | _ => (s, [1%Z] ++ wakes_of s key ++ [0%Z])
      end
    end
  end.

Fixpoint sys_run (s : sys) (ops : list op) : list (list Z) :=
  match ops with
  | [] => []
  | o :: rest => let '(s', obs) := sys_step s o in obs :: sys_run s' rest
  end.

Fixpoint sys_exec (s : sys) (ops : list op) : sys :=
  match ops with
  | [] => s
  | o :: rest => sys_exec (fst (sys_step s o)) rest
  end.

Definition op_decode (t : N) (a : list Z) : option op :=
  match t, a with
  | 0, [s; j; n] => Some (OWrite (Z.to_N s) (Z.to_N j) (Z.to_N n))
  | 1, [s; j] => Some (OFlush (Z.to_N s) (Z.to_N j))
  | 2, [s; j] => Some (OShutdown (Z.to_N s) (Z.to_N j))
  | 3, [s; j; n] => Some (ORead (Z.to_N s) (Z.to_N j) (Z.to_N n))
  | 4, [s; j; e] => Some (OReset (Z.to_N s) (Z.to_N j) (Z.to_N e))
  | 5, [s; j; e] => Some (OStop (Z.to_N s) (Z.to_N j) (Z.to_N e))
  | 6, [s; c; f] => Some (OEmit (Z.to_N s) (Z.to_N c) (Z.to_N f))
  | 7, [i] => Some (ODeliver (Z.to_N i))
  | 8, [i] => Some (OAck (Z.to_N i))
  | 9, [i] => Some (OLose (Z.to_N i))
  | _, _ => None
  end.

Fixpoint ops_decode (l : list (N * list Z)) : list op :=
  match l with
  | [] => []
  | (t, a) :: rest =>
    match op_decode t a with
    | Some o => o :: ops_decode rest
    | None => ops_decode rest
    end
  end.

(* CASE cfg: W k d_0 .. d_{k-1} *)
Definition run_stream_e2e_with (rot : bool) (cfg : list Z) (l : list (N * list Z)) : list (list Z) :=
  match cfg with
  | w :: _ :: dirs => sys_run (sys_init rot (Z.to_N w) (map Z.to_N dirs)) (ops_decode l)
  | _ => []
  end.

(* the code as it stands / with the cursor repair of finding F60; the stream registry selects one *)
Definition run_stream_e2e : list Z -> list (N * list Z) -> list (list Z) := run_stream_e2e_with false.
Definition run_stream_e2e_rot : list Z -> list (N * list Z) -> list (list Z) := run_stream_e2e_with true.
