(* The `cid` correspondence stream (C14): one endpoint = one ArcRemoteCids (peer-issued IDs and
   the paths using them) + any number of connections, each with its own ArcLocalCids whose
   ISSUED environment is the QuicRouterRegistry of ONE shared QuicRouter.  Definitions only.

   A connection is created as in qconnection/src/builder.rs:
     queue := new RcvdPacketQueue; registry := router.registry_on_issuing_scid(queue, tx);
     initial_scid := registry.gen_unique_cid();
     (server only) odcid_entry := router.insert(origin_dcid, queue);
     local := ArcLocalCids::new(initial_scid, registry)          -- issues sequence number 1
   and dropped by dropping `local` (Drop = clear: every active ID is retired from the router) and
   the origin-DCID entry (remove_if guarded by pointer equality).  The owner identity of
   connection number i (creation order) is i. *)
From Coq Require Import List NArith ZArith Bool.
From GQ Require Export Lib.Base Model.Router Model.LocalCid Model.RemoteCid.
Import ListNotations.
Local Open Scope N_scope.

Record conn := mkC {
  c_local : option lcids;        (* None once the connection is dropped *)
  c_odcid : option cid;          (* the live origin-DCID router entry *)
  c_hist : list cid }.           (* every ID this connection ever issued; index = sequence number *)

Record sys := mkS { s_env : renv; s_conns : list conn; s_remote : rcids; s_held : list nat }.
(* s_held: paths for which the driver currently holds a BorrowedCid *)

Inductive op :=
| ONewCid (seq rpt : N) (id : cid)        (* NEW_CONNECTION_ID from the peer *)
| ORetire (c : nat) (seq : N)             (* RETIRE_CONNECTION_ID from the peer of connection c *)
| OSetLimit (c : nat) (n : N)
| OPathApply
| OBorrow (p : nat)
| ORelease (p : nat)
| OPathRetire (p : nat)
| OConnClient                             (* client connection: no origin DCID *)
| OInitial (x : cid)                      (* Initial packet with DCID x delivered: routed, or a new server connection *)
| OForce (x : cid)                        (* server connection created with origin DCID x unconditionally *)
| OConnDrop (c : nat)
| ORoute (x : cid)                        (* lookup of an arbitrary ID *)
| OClear (c : nat)
| OLatest.

Inductive out :=
| XNewCid (r : newcid_res) (fr : list N)
| XLocal (r : lres) (fr : list lframe)
| XPath (p : nat) (fr : list N)
| XBorrow (r : borrow_res)
| XFrames (fr : list N)
| XConn (c : nat) (fr : list lframe)
| XRouted (q : option owner)
| XLatest (c : option cid)
| XParse                                  (* the frame parser refused the frame (retire_prior_to > sequence) *)
| XDone
| XRefused                                (* precondition of the driver not met: no effect *)
| XHang.                                  (* the random loop ran out of fuel *)

Definition nmem (p : nat) (l : list nat) : bool := existsb (Nat.eqb p) l.
Definition nrem (p : nat) (l : list nat) : list nat := filter (fun x => negb (Nat.eqb x p)) l.

Fixpoint cids_of (fs : list lframe) : list cid :=
  match fs with [] => [] | LNew _ _ c :: r => c :: cids_of r end.

Section Sys.
  Variable chk : N -> N -> N -> bool.
  Variable post : rcids -> bool.
  Variable rnd : N -> cid.
  Variable fuel : nat.

  Definition genq (q : owner) := gen_unique rnd fuel q.

  Definition set_conn (s : sys) (i : nat) (c : conn) : sys :=
    mkS (s_env s) (upd (s_conns s) i c) (s_remote s) (s_held s).

  (* builder.rs: with_cids (client: od = None; server: od = Some origin_dcid) *)
  Definition conn_new (s : sys) (od : option cid) : sys * out :=
    let i := length (s_conns s) in
    let q := N.of_nat i in
    match genq q (s_env s) with
    | None => (s, XHang)
    | Some (e1, scid) =>
        let e2 := match od with Some x => insert_odcid e1 x q | None => e1 end in
        match l_new renv (genq q) e2 scid with
        | None => (s, XHang)
        | Some (e3, l, fs) =>
            (mkS e3 (s_conns s ++ [mkC (Some l) od (scid :: cids_of fs)]) (s_remote s) (s_held s),
             XConn i fs)
        end
    end.

  Definition local_op (s : sys) (i : nat)
             (f : renv -> lcids -> option (renv * lcids * list lframe * lres)) : sys * out :=
    match nth_error (s_conns s) i with
    | Some (mkC (Some l) od h) =>
        match f (s_env s) l with
        | None => (s, XHang)
        | Some (e1, l1, fs, r) =>
            (mkS e1 (upd (s_conns s) i (mkC (Some l1) od (h ++ cids_of fs))) (s_remote s) (s_held s),
             XLocal r fs)
        end
    | _ => (s, XRefused)
    end.

  Definition set_remote (s : sys) (r : rcids) : sys := mkS (s_env s) (s_conns s) r (s_held s).

  Definition step (s : sys) (o : op) : sys * out :=
    match o with
    | ONewCid seq rpt id =>
        (* be_new_connection_id_frame: retire_prior_to > sequence never reaches the connection *)
        if seq <? rpt then (s, XParse)
        else
          let '(r, fr, res) := recv_new_cid chk post (s_remote s) seq rpt id in
          (set_remote s r, XNewCid res fr)
    | ORetire c seq =>
        local_op s c (fun e l => l_recv_retire renv (genq (N.of_nat c)) retire_cid e l seq)
    | OSetLimit c n =>
        local_op s c (fun e l => l_set_limit renv (genq (N.of_nat c)) e l n)
    | OPathApply =>
        let '(r, p, fr) := apply_dcid (s_remote s) in (set_remote s r, XPath p fr)
    | OBorrow p =>
        if (p <? length (r_cells (s_remote s)))%nat && negb (nmem p (s_held s)) then
          let '(r, res) := path_borrow (s_remote s) p in
          (mkS (s_env s) (s_conns s) r
               (match res with BCid _ => p :: s_held s | _ => s_held s end), XBorrow res)
        else (s, XRefused)
    | ORelease p =>
        if nmem p (s_held s) && (p <? length (r_cells (s_remote s)))%nat then
          let '(r, fr) := path_release (s_remote s) p in
          (mkS (s_env s) (s_conns s) r (nrem p (s_held s)), XFrames fr)
        else (s, XRefused)
    | OPathRetire p =>
        if (p <? length (r_cells (s_remote s)))%nat then
          let '(r, fr) := path_retire (s_remote s) p in (set_remote s r, XFrames fr)
        else (s, XRefused)
    | OConnClient => conn_new s None
    | OInitial x =>
        match route (s_env s) x with
        | Some q => (s, XRouted (Some q))
        | None => conn_new s (Some x)
        end
    | OForce x => conn_new s (Some x)
    | OConnDrop i =>
        match nth_error (s_conns s) i with
        | Some (mkC (Some l) od h) =>
            let '(e1, _) := l_clear renv retire_cid (s_env s) l in
            let e2 := match od with Some x => entry_drop e1 x (N.of_nat i) | None => e1 end in
            (mkS e2 (upd (s_conns s) i (mkC None None h)) (s_remote s) (s_held s), XDone)
        | _ => (s, XRefused)
        end
    | ORoute x => (s, XRouted (route (s_env s) x))
    | OClear i =>
        match nth_error (s_conns s) i with
        | Some (mkC (Some l) od h) =>
            let '(e1, l1) := l_clear renv retire_cid (s_env s) l in
            (mkS e1 (upd (s_conns s) i (mkC (Some l1) od h)) (s_remote s) (s_held s), XDone)
        | _ => (s, XRefused)
        end
    | OLatest => (s, XLatest (latest_dcid (s_remote s)))
    end.

  Fixpoint steps (s : sys) (ops : list op) : sys * list out :=
    match ops with
    | [] => (s, [])
    | o :: rest =>
        let '(s1, x) := step s o in
        let '(s2, xs) := steps s1 rest in (s2, x :: xs)
    end.
End Sys.

Definition sys_init (limit : N) (npre hs : nat) (id0 : cid) : sys :=
  mkS (mkEnv [] 0) [] (remote_init limit npre hs id0) [].

(* ------------------------------------------------------------------ *)
(* wire form shared with harness/hi/src/bin/impl_cid.rs                *)

(* In the stream, IDs are named, never shown: the ID issued by connection c under sequence
   number s is written (c, s); a peer-chosen origin DCID is a small number x.  The executable
   oracle hands out even numbers, origin DCIDs are odd. *)
Definition rnd_exec (k : N) : cid := 2 * k.
Definition od_exec (x : N) : cid := 2 * x + 1.
Definition fuel_exec : nat := 8.

Inductive wop :=
| WOp (o : op)
| WRouteCS (c : nat) (seq : N)           (* ROUTE c seq *)
| WForceCS (c : nat) (seq : N)           (* CONN_NEW forced with the ID (c, seq) as origin DCID *)
| WBad.

Definition zn (z : Z) : N := Z.to_N z.
Definition znat (z : Z) : nat := N.to_nat (Z.to_N z).

Definition decode (t : N) (a : list Z) : wop :=
  match t, a with
  | 0, [seq; rpt; id] => WOp (ONewCid (zn seq) (zn rpt) (zn id))
  | 1, [c; seq] => WOp (ORetire (znat c) (zn seq))
  | 2, [c; n] => WOp (OSetLimit (znat c) (zn n))
  | 3, [] => WOp OPathApply
  | 4, [p] => WOp (OBorrow (znat p))
  | 5, [p] => WOp (ORelease (znat p))
  | 6, [p] => WOp (OPathRetire (znat p))
  | 7, [m; x; y] =>
      match zn m with
      | 0 => WOp OConnClient
      | 1 => WOp (OInitial (od_exec (zn x)))
      | 2 => WOp (OForce (od_exec (zn x)))
      | 3 => WForceCS (znat x) (zn y)
      | _ => WBad
      end
  | 8, [c] => WOp (OConnDrop (znat c))
  | 9, [c; seq] => WRouteCS (znat c) (zn seq)
  | 10, [x] => WOp (ORoute (od_exec (zn x)))
  | 11, [c] => WOp (OClear (znat c))
  | 12, [] => WOp OLatest
  | _, _ => WBad
  end.

Definition hist_cid (s : sys) (c : nat) (seq : N) : option cid :=
  match nth_error (s_conns s) c with
  | Some cn => nth_error (c_hist cn) (N.to_nat seq)
  | None => None
  end.

Definition resolve (s : sys) (w : wop) : option op :=
  match w with
  | WOp o => Some o
  | WRouteCS c seq => match hist_cid s c seq with Some x => Some (ORoute x) | None => None end
  | WForceCS c seq => match hist_cid s c seq with Some x => Some (OForce x) | None => None end
  | WBad => None
  end.

Definition zN (n : N) : Z := Z.of_N n.
Definition znn (n : nat) : Z := Z.of_nat n.

Fixpoint pr_lframes (fs : list lframe) : list Z :=
  match fs with [] => [] | LNew seq rpt _ :: r => zN seq :: zN rpt :: pr_lframes r end.

Definition pr_owner (q : option owner) : Z :=
  match q with Some v => zN v | None => (-1)%Z end.

Definition print (x : out) : list Z :=
  match x with
  | XNewCid NAccepted fr => 0%Z :: map zN fr
  | XNewCid NDiscarded fr => 1%Z :: map zN fr
  | XNewCid NErrLimit fr => 2%Z :: map zN fr
  | XLocal LOk fs => 0%Z :: pr_lframes fs
  | XLocal LErrLimit fs => 2%Z :: pr_lframes fs
  | XLocal LErrParam fs => 5%Z :: pr_lframes fs
  | XLocal LDouble fs => [(-98)%Z]
  | XPath p fr => znn p :: map zN fr
  | XBorrow BRetired => [0%Z]
  | XBorrow BPending => [1%Z]
  | XBorrow (BCid id) => [2%Z; zN id]
  | XFrames fr => 0%Z :: map zN fr
  | XConn c fs => 0%Z :: znn c :: pr_lframes fs
  | XRouted q => [1%Z; pr_owner q]
  | XLatest (Some id) => [1%Z; zN id]
  | XLatest None => [0%Z]
  | XParse => [3%Z]
  | XDone => [0%Z]
  | XRefused => [(-97)%Z]
  | XHang => [(-96)%Z]
  end.

Section Run.
  Variable chk : N -> N -> N -> bool.
  Variable post : rcids -> bool.

  Fixpoint run_w (s : sys) (l : list (N * list Z)) : list (list Z) :=
    match l with
    | [] => []
    | (t, a) :: rest =>
        match resolve s (decode t a) with
        | Some o => let '(s1, x) := step chk post rnd_exec fuel_exec s o in print x :: run_w s1 rest
        | None => [(-97)%Z] :: run_w s rest
        end
    end.

  (* CASE configuration: limit, npre (paths applied before the first Initial, >= 1),
     hs (which of them is the handshake path), initial DCID value *)
  Definition run_with (cfg : list Z) (l : list (N * list Z)) : list (list Z) :=
    match cfg with
    | [lim; npre; hs; id0] => run_w (sys_init (zn lim) (znat npre) (znat hs) (zn id0)) l
    | _ => []
    end.
End Run.

(* the code as it stands *)
Definition run_cid := run_with chk_coded no_post.
(* the minimal span repair `seq + 1 - retire_prior_to > limit` (kept for reference) *)
Definition run_cid_fixed := run_with chk_fixed no_post.
(* the code after the `fix:` commit (branch fix-f18): count the active IDs after processing *)
Definition run_cid_count := run_with no_pre post_count.
