//! Correspondence stream `handlers` (C04): one hostile but well-formed frame (or packet number, or
//! transport-parameter value) delivered to the REAL handlers after a short legitimate history.
//!
//! Real code driven: `qbase::frame::io::be_frame` (the parser), `qcongestion::ArcCC::on_ack_rcvd`,
//! `qrecovery::journal::{ArcRcvdJournal, ArcSentJournal}`, `qbase::cid::{ArcRemoteCids, ArcLocalCids}`,
//! `qrecovery::streams::DataStreams` + `qbase::flow::FlowController` (glued like
//! `qconnection::space::FlowControlledDataStreams`).  The few glue lines of qconnection/src/space.rs
//! and space/{initial,handshake,data}.rs (`Frame::Ack(f)` arm of the dispatcher and
//! `Ack*Space::recv_frame`) are REPLICATED in `deliver_ack`; the order in which the dispatcher
//! calls the three consumers is not assumed but passed in by the orchestrator, which extracts it
//! from the Rust source on every run (tools/props/C04.py `dispatch_order`).
//!
//! CASE <name> ord rcid_limit msb msu [f7 f8 f55]   (the last three select the model's code variant only)
//!   ord        0 = controller, received journal, then update_largest (the code before the F22 fix)
//!              1 = update_largest first (only a validated ACK reaches the other two)
//!   rcid_limit active_connection_id_limit we advertise (RemoteCids)
//!   msb msu    initial_max_streams_{bidi,uni} we advertise (we are the server)
//! history ops (in process, state kept):
//!   0 ADV ms | 1 SENT n | 2 RCVD pn | 3 SENDACK | 5 CELL (a path applies for a dcid) | 7 LSETLIMIT n
//!  10 FRAME x<hex>     one frame, parsed by be_frame(1-RTT) and dispatched
//!  20 DUMP             sizes of the journals
//! probes (run in a forked child; the parent state is untouched).  What ends an unbounded handler is
//! RLIMIT_AS = 320 MiB (about 250 MiB above what the process maps anyway): deterministic, the same on a
//! loaded machine.  RLIMIT_CPU (a quarter of the per-operation watchdog of hproto, VERIF_CASE_TIMEOUT_MS)
//! and a wall-clock alarm (80 % of it) are only backstops that keep a child below the watchdog, so that
//! a handler that is still busy then is reported as `-5` like one that ran out of memory instead of as
//! a hang of the harness (measured: under heavy load the CPU time of the same child varies by a factor 9):
//! 100 FRAME x<hex> | 101 PN width value (decode_pn + on_rcvd_pn) | 104 SETLIMIT n
//!
//! observation:  …words… alloc_bytes alloc_blocks cc_len        (cc_len = packets the controller tracks
//!   in the Data space BEFORE the op: an input of the model, the controller itself is C13's subject)
//!   a child killed by a resource limit prints `-5 0 0 cc_len` (the model must predict cost > 2^21),
//!   panic -77, connection already failed -1.
//!   frame ops:  class …
//!     0 parse error: kind
//!     1 ACK: err cc_ticks collected acked_frames
//!     2 NEW_CONNECTION_ID: err retire_frames
//!     3 RETIRE_CONNECTION_ID: err new_frames
//!     4 stream control / 5 STREAM: err fresh nframes (5 words per frame, as stream `streams`)
//!     9 anything else (ignored)
//!   101: decode(0 ok,1 old,2 dup,3 large) pn cells_added      104: err new_frames
use std::alloc::{GlobalAlloc, Layout, System};
use std::panic::{AssertUnwindSafe, catch_unwind};
use std::sync::atomic::{AtomicU16, AtomicU64, Ordering::Relaxed};
use std::sync::{Arc, Mutex};
use std::time::Duration;

use bytes::Bytes;
use hproto::{Obs, Op};
use qbase::{
    Epoch,
    cid::{ArcLocalCids, ArcRemoteCids, ConnectionId, GenUniqueCid, RetireCid},
    error::{Error, ErrorKind},
    flow::FlowController,
    frame::{
        AckFrame, DataBlockedFrame, Frame, GetFrameType, MaxDataFrame, MaxStreamsFrame,
        NewConnectionIdFrame, RetireConnectionIdFrame, StreamCtlFrame, StreamsBlockedFrame,
        io::{ReceiveFrame, SendFrame, be_frame},
    },
    net::tx::{ArcSendWaker, ArcSendWakers},
    packet::{
        InvalidPacketNumber, PacketNumber, SpinBit,
        r#type::{Type, short::OneRtt},
    },
    param::{ClientParameters, ParameterId, ServerParameters},
    role::Role,
    sid::{ControlStreamsConcurrency, StreamId, handy::ConsistentConcurrency},
    varint::VarInt,
};
use qcongestion::{Algorithm, ArcCC, Feedback, HandshakeStatus, PathStatus, Transport};
use qevent::quic::recovery::PacketLostTrigger;
use qrecovery::{
    journal::{ArcRcvdJournal, ArcSentJournal},
    streams::DataStreams,
};
use tokio::time::Instant;

// ------------------------------------------------------------------ counting allocator
struct Counting;
static BYTES: AtomicU64 = AtomicU64::new(0);
static BLOCKS: AtomicU64 = AtomicU64::new(0);
unsafe impl GlobalAlloc for Counting {
    unsafe fn alloc(&self, l: Layout) -> *mut u8 {
        BYTES.fetch_add(l.size() as u64, Relaxed);
        BLOCKS.fetch_add(1, Relaxed);
        unsafe { System.alloc(l) }
    }
    unsafe fn dealloc(&self, p: *mut u8, l: Layout) {
        unsafe { System.dealloc(p, l) }
    }
    unsafe fn alloc_zeroed(&self, l: Layout) -> *mut u8 {
        BYTES.fetch_add(l.size() as u64, Relaxed);
        BLOCKS.fetch_add(1, Relaxed);
        unsafe { System.alloc_zeroed(l) }
    }
    unsafe fn realloc(&self, p: *mut u8, l: Layout, new: usize) -> *mut u8 {
        BYTES.fetch_add(new as u64, Relaxed);
        BLOCKS.fetch_add(1, Relaxed);
        unsafe { System.realloc(p, l, new) }
    }
}
#[global_allocator]
static A: Counting = Counting;

// ------------------------------------------------------------------ libc (std links it)
#[repr(C)]
struct Rlimit {
    cur: u64,
    max: u64,
}
unsafe extern "C" {
    fn fork() -> i32;
    fn pipe(fds: *mut i32) -> i32;
    fn read(fd: i32, buf: *mut u8, n: usize) -> isize;
    fn write(fd: i32, buf: *const u8, n: usize) -> isize;
    fn close(fd: i32) -> i32;
    fn waitpid(pid: i32, status: *mut i32, options: i32) -> i32;
    fn _exit(code: i32) -> !;
    fn setrlimit(resource: i32, rlim: *const Rlimit) -> i32;
    fn alarm(seconds: u32) -> u32;
}

/// (CPU seconds, wall-clock seconds) one probe child may use: both below the watchdog period of `hproto::run`
fn child_budget_s() -> (u64, u64) {
    let limit_ms: u64 = std::env::var("VERIF_CASE_TIMEOUT_MS").ok().and_then(|s| s.parse().ok()).unwrap_or(20_000);
    ((limit_ms / 4_000).clamp(2, 30), (limit_ms * 8 / 10 / 1000).max(2))
}
const RLIMIT_CPU: i32 = 0;
const RLIMIT_AS: i32 = 9;
const RLIMIT_CORE: i32 = 4;

// ------------------------------------------------------------------ collectors
#[derive(Clone, Default)]
struct Retired(Arc<Mutex<Vec<RetireConnectionIdFrame>>>);
impl SendFrame<RetireConnectionIdFrame> for Retired {
    fn send_frame<I: IntoIterator<Item = RetireConnectionIdFrame>>(&self, iter: I) {
        self.0.lock().unwrap().extend(iter);
    }
}

#[derive(Clone, Default)]
struct Issued {
    frames: Arc<Mutex<Vec<NewConnectionIdFrame>>>,
    next: Arc<AtomicU64>,
}
impl GenUniqueCid for Issued {
    fn gen_unique_cid(&self) -> ConnectionId {
        let n = self.next.fetch_add(1, Relaxed);
        ConnectionId::from_slice(&n.to_be_bytes())
    }
}
impl RetireCid for Issued {
    fn retire_cid(&self, _cid: ConnectionId) {}
}
impl SendFrame<NewConnectionIdFrame> for Issued {
    fn send_frame<I: IntoIterator<Item = NewConnectionIdFrame>>(&self, iter: I) {
        self.frames.lock().unwrap().extend(iter);
    }
}

type W = [i128; 5];
#[derive(Clone, Default, Debug)]
struct Tx(Arc<Mutex<Vec<W>>>);
fn sid_u(s: StreamId) -> i128 {
    u64::from(s) as i128
}
impl SendFrame<StreamCtlFrame> for Tx {
    fn send_frame<I: IntoIterator<Item = StreamCtlFrame>>(&self, iter: I) {
        let mut g = self.0.lock().unwrap();
        for f in iter {
            g.push(match f {
                StreamCtlFrame::ResetStream(r) => [2, sid_u(r.stream_id()), r.app_error_code() as i128, r.final_size() as i128, 0],
                StreamCtlFrame::StopSending(r) => [3, sid_u(r.stream_id()), r.app_err_code() as i128, 0, 0],
                StreamCtlFrame::MaxStreamData(r) => [4, sid_u(r.stream_id()), r.max_stream_data() as i128, 0, 0],
                StreamCtlFrame::MaxStreams(MaxStreamsFrame::Bi(v)) => [5, 0, v.into_u64() as i128, 0, 0],
                StreamCtlFrame::MaxStreams(MaxStreamsFrame::Uni(v)) => [5, 1, v.into_u64() as i128, 0, 0],
                StreamCtlFrame::StreamsBlocked(StreamsBlockedFrame::Bi(v)) => [6, 0, v.into_u64() as i128, 0, 0],
                StreamCtlFrame::StreamsBlocked(StreamsBlockedFrame::Uni(v)) => [6, 1, v.into_u64() as i128, 0, 0],
                StreamCtlFrame::StreamDataBlocked(r) => [9, sid_u(r.stream_id()), r.maximum_stream_data() as i128, 0, 0],
            });
        }
    }
}
impl SendFrame<MaxDataFrame> for Tx {
    fn send_frame<I: IntoIterator<Item = MaxDataFrame>>(&self, iter: I) {
        let mut g = self.0.lock().unwrap();
        for f in iter {
            g.push([7, f.max_data() as i128, 0, 0, 0]);
        }
    }
}
impl SendFrame<DataBlockedFrame> for Tx {
    fn send_frame<I: IntoIterator<Item = DataBlockedFrame>>(&self, iter: I) {
        let mut g = self.0.lock().unwrap();
        for f in iter {
            g.push([8, f.limit() as i128, 0, 0, 0]);
        }
    }
}

struct NoLoss;
impl Feedback for NoLoss {
    fn may_loss(&self, _t: PacketLostTrigger, pns: &mut dyn Iterator<Item = u64>) {
        for _ in pns {}
    }
}

// ------------------------------------------------------------------ state
struct St {
    rt: Arc<tokio::runtime::Runtime>,
    ord: u64,
    cc: ArcCC,
    rj: ArcRcvdJournal,
    sj: ArcSentJournal<u64>,
    largest_rcvd: Option<u64>,
    rc: ArcRemoteCids<Retired>,
    retired: Retired,
    lc: ArcLocalCids<Issued>,
    issued: Issued,
    limit_set: bool,
    ds: DataStreams<Tx>,
    flow: &'static FlowController<Tx>,
    tx: Tx,
    closed: bool,
}

fn vi(v: u64) -> VarInt {
    VarInt::from_u64(v).expect("varint")
}

const SD: u64 = 1 << 20; // every stream / connection data window we advertise

fn new_case(words: &[&str]) -> St {
    let arg = |i: usize, d: u64| words.get(i).and_then(|s| s.parse::<u64>().ok()).unwrap_or(d);
    let (ord, rlim, msb, msu) = (arg(0, 1), arg(1, 2), arg(2, 3), arg(3, 3));
    let rt = tokio::runtime::Builder::new_current_thread().enable_time().start_paused(true).build().unwrap();
    let _g = rt.enter();
    let hs = Arc::new(HandshakeStatus::new(true));
    let ps = PathStatus::new(hs.clone(), Arc::new(AtomicU16::new(1200)));
    let fb = || -> Arc<dyn Feedback> { Arc::new(NoLoss) };
    let cc = ArcCC::new(Algorithm::NewReno, Duration::from_millis(25), [fb(), fb(), fb()], ps, ArcSendWaker::new());
    let rj = ArcRcvdJournal::with_capacity(16, Some(Duration::from_millis(25)));
    let sj = ArcSentJournal::with_capacity(16);
    let retired = Retired::default();
    let rc = ArcRemoteCids::new(rlim, retired.clone());
    let cell = rc.apply_dcid();
    rc.apply_initial_dcid(ConnectionId::from_slice(b"peer0000"), &cell);
    std::mem::forget(cell); // a path keeps its cell for the life of the connection
    let issued = Issued::default();
    let lc = ArcLocalCids::new(ConnectionId::from_slice(b"local000"), issued.clone());
    issued.frames.lock().unwrap().clear();
    // streams: we are the server, the peer's parameters are not known yet (all zero)
    let tx = Tx::default();
    let wakers = ArcSendWakers::default();
    let mut lp = ServerParameters::default();
    {
        use ParameterId::*;
        lp.set(InitialMaxStreamsBidi, vi(msb)).unwrap();
        lp.set(InitialMaxStreamsUni, vi(msu)).unwrap();
        lp.set(InitialMaxData, vi(SD)).unwrap();
        lp.set(InitialMaxStreamDataBidiLocal, vi(SD)).unwrap();
        lp.set(InitialMaxStreamDataBidiRemote, vi(SD)).unwrap();
        lp.set(InitialMaxStreamDataUni, vi(SD)).unwrap();
        lp.set(InitialSourceConnectionId, ConnectionId::from_slice(b"server__")).unwrap();
        lp.set(OriginalDestinationConnectionId, ConnectionId::from_slice(b"odcid___")).unwrap();
    }
    let rp0 = ClientParameters::default();
    let ctrl: Box<dyn ControlStreamsConcurrency> = Box::new(ConsistentConcurrency::new(msb, msu));
    let ds = DataStreams::new(Role::Server, &lp, &rp0, ctrl, tx.clone(), wakers.clone(), None);
    let flow: &'static FlowController<Tx> = Box::leak(Box::new(FlowController::new(0, SD, tx.clone(), wakers)));
    drop(_g);
    let rt = Arc::new(rt);
    St { rt, ord, cc, rj, sj, largest_rcvd: None, rc, retired, lc, issued, limit_set: false, ds, flow, tx, closed: false }
}

fn kind_code(k: ErrorKind) -> i128 {
    match k {
        ErrorKind::None => 0,
        ErrorKind::Internal => 1,
        ErrorKind::FlowControl => 3,
        ErrorKind::StreamLimit => 4,
        ErrorKind::StreamState => 5,
        ErrorKind::FinalSize => 6,
        ErrorKind::FrameEncoding => 7,
        ErrorKind::TransportParameter => 8,
        ErrorKind::ConnectionIdLimit => 9,
        ErrorKind::ProtocolViolation => 10,
        _ => 99,
    }
}
fn err_code(e: &Error) -> i128 {
    match e {
        Error::Quic(q) => kind_code(q.kind()),
        _ => 98,
    }
}

/// `Frame::Ack(f)` arm of the dispatcher + `AckDataSpace::recv_frame`, in the order `ord`.
/// returns (error kind, controller loop iterations, |acked| collected by recv_frame, frames fed back)
fn deliver_ack(st: &St, f: &AckFrame) -> (i128, u64, usize, usize) {
    let t0 = qcongestion::verif::ACK_LOOP_TICKS.load(Relaxed);
    let ticks = || qcongestion::verif::ACK_LOOP_TICKS.load(Relaxed) - t0;
    if st.ord == 1 {
        // the fixed dispatcher: validate against the sent journal first
        if let Err(e) = st.sj.rotate().update_largest(f) {
            return (kind_code(e.kind()), ticks(), 0, 0);
        }
    }
    st.cc.on_ack_rcvd(Epoch::Data, f);
    st.rj.on_rcvd_ack(f);
    // ack_frames_entry.send(f) -> pipe -> AckDataSpace::recv_frame
    let mut guard = st.sj.rotate();
    if let Err(e) = guard.update_largest(f) {
        return (kind_code(e.kind()), ticks(), 0, 0);
    }
    let acked = f.iter().flat_map(|r| r.rev()).collect::<Vec<_>>();
    let n = acked.len();
    let mut fed = 0usize;
    for pn in acked {
        for _frame in guard.on_packet_acked(pn) {
            fed += 1;
        }
    }
    (0, ticks(), n, fed)
}

fn push_stream_result(st: &mut St, out: &mut Vec<i128>, r: Result<usize, Error>, ft: qbase::frame::FrameType) {
    match r {
        Ok(fresh) => match st.flow.on_new_rcvd(ft, fresh) {
            Ok(_) => out.extend([0, fresh as i128]),
            Err(e) => {
                st.closed = true;
                out.extend([kind_code(e.kind()), fresh as i128]);
            }
        },
        Err(e) => {
            st.closed = true;
            out.extend([err_code(&e), 0]);
        }
    }
    let ctl: Vec<W> = st.tx.0.lock().unwrap().drain(..).collect();
    out.push(ctl.len() as i128);
    for w in ctl {
        out.extend(w);
    }
}

fn deliver_frame(st: &mut St, raw: &[u8], out: &mut Vec<i128>) {
    let bytes = Bytes::copy_from_slice(raw);
    let frame = match be_frame(&bytes, Type::Short(OneRtt(SpinBit::Zero))) {
        Ok((_n, frame, _ty)) => frame,
        Err(e) => {
            let q: qbase::error::QuicError = e.into();
            st.closed = true;
            out.extend([0, kind_code(q.kind())]);
            return;
        }
    };
    match frame {
        Frame::Ack(f) => {
            let (e, ticks, n, fed) = deliver_ack(st, &f);
            if e != 0 {
                st.closed = true;
            }
            out.extend([1, e, ticks as i128, n as i128, fed as i128]);
        }
        Frame::NewConnectionId(f) => {
            st.retired.0.lock().unwrap().clear();
            let r = st.rc.recv_frame(f);
            let n = st.retired.0.lock().unwrap().len();
            let e = match r {
                Ok(_) => 0,
                Err(e) => {
                    st.closed = true;
                    err_code(&e)
                }
            };
            out.extend([2, e, n as i128]);
        }
        Frame::RetireConnectionId(f) => {
            st.issued.frames.lock().unwrap().clear();
            let r = st.lc.recv_frame(f);
            let n = st.issued.frames.lock().unwrap().len();
            let e = match r {
                Ok(_) => 0,
                Err(e) => {
                    st.closed = true;
                    err_code(&e)
                }
            };
            out.extend([3, e, n as i128]);
        }
        Frame::StreamCtl(f) => {
            st.tx.0.lock().unwrap().clear();
            let ft = f.frame_type();
            let r = st.ds.recv_frame(f);
            out.push(4);
            push_stream_result(st, out, r, ft);
        }
        Frame::Stream(f, data) => {
            st.tx.0.lock().unwrap().clear();
            let ft = f.frame_type();
            let r = st.ds.recv_frame((f, data));
            out.push(5);
            push_stream_result(st, out, r, ft);
        }
        _ => out.push(9),
    }
}

fn pnum(w: u64, x: u64) -> PacketNumber {
    match w {
        1 => PacketNumber::U8(x as u8),
        2 => PacketNumber::U16(x as u16),
        3 => PacketNumber::U24(x as u32),
        _ => PacketNumber::U32(x as u32),
    }
}

fn rj_len(st: &St, base: Instant) -> i128 {
    st.rj.verif_dump(base)[1]
}

/// the operations that can run either in process or as a probe
fn hostile(st: &mut St, tag: u64, op: &Op, out: &mut Vec<i128>) {
    match tag {
        0 => {
            let raw: Vec<u8> = op.args.iter().map(|v| *v as u8).collect();
            deliver_frame(st, &raw, out);
        }
        1 => {
            let base = Instant::now();
            let before = rj_len(st, base);
            match st.rj.decode_pn(pnum(op.u(0), op.u(1))) {
                Ok(pn) => {
                    st.rj.on_rcvd_pn(pn, true, Duration::from_millis(100));
                    st.largest_rcvd = Some(st.largest_rcvd.map_or(pn, |l| l.max(pn)));
                    out.extend([0, pn as i128, rj_len(st, base) - before]);
                }
                Err(InvalidPacketNumber::TooOld) => out.extend([1, 0, 0]),
                Err(InvalidPacketNumber::Duplicate) => out.extend([2, 0, 0]),
                Err(InvalidPacketNumber::TooLarge) => out.extend([3, 0, 0]),
            }
        }
        _ => {
            if st.limit_set {
                out.extend([-3, 0]); // set_limit is called once per connection (debug_assert)
                return;
            }
            st.issued.frames.lock().unwrap().clear();
            let r = st.lc.set_limit(op.u(0));
            st.limit_set = true;
            let n = st.issued.frames.lock().unwrap().len();
            let e = match r {
                Ok(()) => 0,
                Err(e) => {
                    st.closed = true;
                    err_code(&e)
                }
            };
            out.extend([e, n as i128]);
        }
    }
}

fn measured(st: &mut St, tag: u64, op: &Op) -> Vec<i128> {
    let mut out = Vec::with_capacity(64);
    let (b0, k0) = (BYTES.load(Relaxed), BLOCKS.load(Relaxed));
    let r = catch_unwind(AssertUnwindSafe(|| hostile(st, tag, op, &mut out)));
    let (b1, k1) = (BYTES.load(Relaxed), BLOCKS.load(Relaxed));
    if let Err(p) = r {
        // `capacity overflow` (a Vec/VecDeque asked for more than isize::MAX bytes) is the same
        // event as a failed allocation: the handler tried to allocate an absurd amount
        let msg = p.downcast_ref::<&str>().map(|s| s.to_string()).or_else(|| p.downcast_ref::<String>().cloned()).unwrap_or_default();
        out.clear();
        out.push(if msg.contains("capacity overflow") { -5 } else { -77 });
        st.closed = true;
    }
    out.push((b1 - b0) as i128);
    out.push((k1 - k0) as i128);
    out
}

fn probe(st: &mut St, tag: u64, op: &Op) -> Vec<i128> {
    let mut fds = [0i32; 2];
    unsafe {
        if pipe(fds.as_mut_ptr()) != 0 {
            return vec![-98, 0, 0];
        }
        let pid = fork();
        if pid == 0 {
            close(fds[0]);
            setrlimit(RLIMIT_AS, &Rlimit { cur: 320 << 20, max: 320 << 20 });
            let (cpu, wall) = child_budget_s();
            setrlimit(RLIMIT_CPU, &Rlimit { cur: cpu, max: cpu });
            alarm(wall as u32); // SIGXCPU / SIGALRM terminate the child: observation -5, like a failed allocation
            setrlimit(RLIMIT_CORE, &Rlimit { cur: 0, max: 0 });
            let v = measured(st, tag, op);
            let s = v.iter().map(|x| x.to_string()).collect::<Vec<_>>().join(" ");
            let b = s.as_bytes();
            let mut off = 0;
            while off < b.len() {
                let n = write(fds[1], b.as_ptr().add(off), b.len() - off);
                if n <= 0 {
                    break;
                }
                off += n as usize;
            }
            _exit(0);
        }
        close(fds[1]);
        let mut buf = Vec::new();
        let mut chunk = [0u8; 4096];
        loop {
            let n = read(fds[0], chunk.as_mut_ptr(), chunk.len());
            if n <= 0 {
                break;
            }
            buf.extend_from_slice(&chunk[..n as usize]);
        }
        close(fds[0]);
        let mut status = 0i32;
        waitpid(pid, &mut status, 0);
        let clean = (status & 0x7f) == 0 && ((status >> 8) & 0xff) == 0;
        if !clean || buf.is_empty() {
            // which limit ended the child is not part of the observation; it goes to stderr for diagnosis
            // (signal 6 = failed allocation / abort, 9 or 24 = RLIMIT_CPU, 14 = wall-clock alarm)
            eprintln!("probe child ended abnormally: wait status {status:#x}, {} bytes of output", buf.len());
            return vec![-5, 0, 0];
        }
        let v: Vec<i128> = String::from_utf8_lossy(&buf).split_ascii_whitespace().filter_map(|t| t.parse::<i128>().ok()).collect();
        if v.first() == Some(&-5) {
            return vec![-5, 0, 0];
        }
        v
    }
}

fn step(st: &mut St, op: &Op, _i: usize) -> Obs {
    let mut o = Obs::new();
    if st.closed {
        o.push(-1);
        return o;
    }
    let rt = st.rt.clone();
    let _g = rt.enter();
    let cc_len = st.cc.verif_snapshot().spaces[2].sent_packets.len() as i128;
    let mut out: Vec<i128> = Vec::new();
    match op.tag {
        0 => {
            st.rt.block_on(tokio::time::advance(Duration::from_millis(op.u(0))));
            out.push(0);
        }
        1 => {
            for _ in 0..op.u(0).min(64) {
                let mut g = st.sj.new_packet();
                let (pn, _) = g.pn();
                g.record_frame(pn);
                g.build_with_time(Duration::from_millis(100), Duration::from_millis(1000));
                st.cc.on_pkt_sent(Epoch::Data, pn, true, 1200, true, None);
            }
            out.push(st.sj.new_packet().pn().0 as i128);
        }
        2 => {
            // a legitimate packet: the number is accepted only if decode_pn of its 4-byte form agrees
            let pn = op.u(0);
            let d = st.rj.verif_dump(Instant::now());
            let next = (d[0] + d[1]) as u64;
            match st.rj.decode_pn(PacketNumber::U32(pn as u32)) {
                Ok(p) if p == pn && pn.saturating_sub(next) < (1 << 21) => {
                    st.rj.on_rcvd_pn(pn, true, Duration::from_millis(100));
                    st.largest_rcvd = Some(st.largest_rcvd.map_or(pn, |l| l.max(pn)));
                    out.push(1);
                }
                _ => out.push(0),
            }
        }
        3 => match st.largest_rcvd {
            None => out.push(0),
            Some(largest) => {
                let mut g = st.sj.new_packet();
                let (pn, _) = g.pn();
                match st.rj.gen_ack_frame_util(pn, largest, Instant::now(), 1200) {
                    Ok(_f) => {
                        g.record_frame(pn);
                        g.build_with_time(Duration::from_millis(100), Duration::from_millis(1000));
                        st.cc.on_pkt_sent(Epoch::Data, pn, true, 60, true, Some(largest));
                        out.push(1);
                    }
                    Err(_) => {
                        drop(g);
                        out.push(2);
                    }
                }
            }
        },
        5 => {
            std::mem::forget(st.rc.apply_dcid());
            out.push(0);
        }
        7 => out = measured(st, 4, op),
        10 => out = measured(st, 0, op),
        20 => {
            let base = Instant::now();
            let r = st.rj.verif_dump(base);
            let s = st.sj.verif_dump(base, |f| *f as i128);
            out.extend([r[0], r[1], r[3], s[0], s[1], s[2], s[3]]);
        }
        100 => out = probe(st, 0, op),
        101 => out = probe(st, 1, op),
        104 => out = probe(st, 4, op),
        _ => out.push(-99),
    }
    out.push(cc_len);
    o.0 = out;
    o
}

fn main() {
    hproto::run(new_case, step);
}
