//! Correspondence stream `txpn` (C07): the REAL packet writers of qconnection/src/tx.rs — the regular
//! `tx::PacketWriter` (send path of a `Path`) and `tx::TrivialPacketWriter` (CONNECTION_CLOSE packets of
//! the closing state, hole-punching packets of qtraversal's Puncher) — interleaved over one
//! `ArcSentJournal` per packet-number space (Initial, Handshake: `ArcSentJournal<CryptoFrame>`; Data:
//! `ArcSentJournal<GuaranteedFrame>`, shared by 0-RTT and 1-RTT packets), with the acknowledgement side
//! (`SentRotateGuard`) in between.  Frames are assembled through the real `Package` impls of qbase
//! (`assemble_packet`, `PadTo20`) and the packet is finished by the real `encrypt_and_protect_packet`.
//! Packet protection is transparent (header protection leaves the bytes alone, the AEAD leaves the payload
//! alone and RECORDS the nonce it was asked to use), so the packet number that is on the wire can be read
//! back from the produced bytes.
//!
//! CASE <name>
//! ops:  0 dt                                         advance the (paused) clock by dt ms
//!       1 ty bufsz pad retran expire (kind val)*     one tx::PacketWriter life
//!       2 ty bufsz pad (kind val)*                   one tx::TrivialPacketWriter life
//!       3 space (k p)*                               one SentRotateGuard life (k: 0 acked, 1 may_loss, 2 fast_retransmit, 3 update_largest)
//!       4 space                                      dump of the journal (cfg hook)
//!       9                                            (debug aid) encoding sizes of the frame vocabulary
//!   ty: 0 Initial, 1 Handshake, 2 0-RTT, 3 1-RTT  (space = min(ty, 2))
//!   kind: 1 MAX_DATA(val)  2 PING  3 PADDING  4 CONNECTION_CLOSE (QUIC layer)  5 PUNCH_HELLO  6 ACK  7 CRYPTO(offset val, empty)
//! observation of a writer life:
//!       0 pn width truncated nonce next    the packet left: number in PacketInfo, packet-number field read back from the
//!                                          wire bytes, the nonce given to the AEAD, the journal's next number afterwards
//!       1 next                             the writer could not be created (buffer too small); guard dropped
//!       2 pn next                          nothing fitted: assembly abandoned, guard dropped
//!       -77                                a panic (the journal's mutex is poisoned from then on)
use std::{
    panic::{AssertUnwindSafe, catch_unwind},
    sync::{Arc, Mutex},
};

use bytes::Bytes;
use hproto::{Obs, Op};
use qbase::{
    cid::ConnectionId,
    error::{ErrorFrameType, ErrorKind},
    frame::{
        AckFrame, ConnectionCloseFrame, CryptoFrame, EncodeSize, FrameType, MaxDataFrame, PaddingFrame, PingFrame, PunchHelloFrame,
        ReliableFrame,
    },
    packet::{
        AssemblePacket, KeyPhaseBit, SpinBit,
        header::{long::io::LongHeaderBuilder, short::OneRttHeader},
        io::{Package, PadTo20},
        keys::DirectionalKeys,
    },
    varint::VarInt,
};
use qconnection::{
    GuaranteedFrame,
    tx::{PacketWriter, TrivialPacketWriter},
};
use qrecovery::journal::ArcSentJournal;
use tokio::time::{Duration, Instant};

const PANIC: i128 = -77;

/// Transparent packet protection that remembers every nonce (= packet number; the IV is constant).
#[derive(Default)]
struct RecordingKeys {
    nonces: Mutex<Vec<u64>>,
}

impl rustls::quic::PacketKey for RecordingKeys {
    fn encrypt_in_place(&self, packet_number: u64, _header: &[u8], _payload: &mut [u8]) -> Result<rustls::quic::Tag, rustls::Error> {
        self.nonces.lock().unwrap().push(packet_number);
        Ok(rustls::quic::Tag::from(&[0xa5u8; 16][..]))
    }
    fn decrypt_in_place<'a>(&self, _pn: u64, _header: &[u8], payload: &'a mut [u8]) -> Result<&'a [u8], rustls::Error> {
        Ok(&payload[..payload.len() - 16])
    }
    fn tag_len(&self) -> usize {
        16
    }
    fn confidentiality_limit(&self) -> u64 {
        u64::MAX
    }
    fn integrity_limit(&self) -> u64 {
        u64::MAX
    }
}

impl rustls::quic::HeaderProtectionKey for RecordingKeys {
    fn encrypt_in_place(&self, _sample: &[u8], _first: &mut u8, _packet_number: &mut [u8]) -> Result<(), rustls::Error> {
        Ok(())
    }
    fn decrypt_in_place(&self, _sample: &[u8], _first: &mut u8, _packet_number: &mut [u8]) -> Result<(), rustls::Error> {
        Ok(())
    }
    fn sample_len(&self) -> usize {
        16
    }
}

struct St {
    rt: tokio::runtime::Runtime,
    base: Instant,
    keys: Arc<RecordingKeys>,
    initial: ArcSentJournal<CryptoFrame>,
    handshake: ArcSentJournal<CryptoFrame>,
    data: ArcSentJournal<GuaranteedFrame>,
}

fn vi(v: u64) -> VarInt {
    VarInt::from_u64(v).expect("harness: generator keeps varints below 2^62")
}

fn new_case(_words: &[&str]) -> St {
    let rt = tokio::runtime::Builder::new_current_thread().enable_time().start_paused(true).build().unwrap();
    let base = {
        let _g = rt.enter();
        Instant::now()
    };
    St {
        rt,
        base,
        keys: Arc::new(RecordingKeys::default()),
        initial: ArcSentJournal::with_capacity(16),
        handshake: ArcSentJournal::with_capacity(16),
        data: ArcSentJournal::with_capacity(16),
    }
}

fn dcid() -> ConnectionId {
    ConnectionId::from_slice(b"c07-dcid")
}
fn scid() -> ConnectionId {
    ConnectionId::from_slice(b"c07-scid")
}

fn ccf() -> ConnectionCloseFrame {
    ConnectionCloseFrame::new_quic(ErrorKind::None, ErrorFrameType::V1(FrameType::Padding), "")
}
fn ack() -> AckFrame {
    AckFrame::new(vi(0), vi(0), vi(0), vec![], None)
}

/// the packet-number field as it is on the wire (protection is transparent): (width, truncated value)
fn wire_pn(buf: &[u8]) -> (i128, i128) {
    fn varint_len(b: u8) -> usize {
        1 << (b >> 6)
    }
    fn varint(b: &[u8]) -> (u64, usize) {
        let n = varint_len(b[0]);
        let mut v = (b[0] & 0x3f) as u64;
        for x in &b[1..n] {
            v = (v << 8) | *x as u64;
        }
        (v, n)
    }
    let first = buf[0];
    let w = (first & 3) as usize + 1;
    let mut at;
    if first & 0x80 == 0 {
        at = 1 + 8;
    } else {
        at = 1 + 4;
        at += 1 + buf[at] as usize; // dcid
        at += 1 + buf[at] as usize; // scid
        if (first >> 4) & 3 == 0 {
            let (tl, n) = varint(&buf[at..]);
            at += n + tl as usize;
        }
        at += varint_len(buf[at]); // Length
    }
    let mut v = 0u64;
    for x in &buf[at..at + w] {
        v = (v << 8) | *x as u64;
    }
    (w as i128, v as i128)
}

/// Assembles the listed frames through the real `Package` impls (each one that does not fit is skipped,
/// exactly as in a `Packages` tuple), then `PadTo20` if asked; Ok = something was written.
macro_rules! assemble {
    ($w:expr, $frames:expr, $pad:expr) => {{
        let mut pkgs: Vec<Box<dyn Package<_>>> = Vec::new();
        for c in $frames.chunks(2).filter(|c| c.len() == 2) {
            let (k, v) = (c[0], c[1] as u64);
            pkgs.push(match k {
                1 => Box::new(MaxDataFrame::new(vi(v))),
                2 => Box::new(PingFrame),
                3 => Box::new(PaddingFrame),
                4 => Box::new(ccf()),
                5 => Box::new(PunchHelloFrame::new(1, 2, 3)),
                6 => Box::new(ack()),
                _ => Box::new((CryptoFrame::new(vi(v), vi(0)), Bytes::new())),
            });
        }
        if $pad {
            pkgs.push(Box::new(PadTo20));
        }
        let mut all = pkgs.as_mut_slice();
        $w.assemble_packet(&mut all).is_ok()
    }};
}

/// One writer life over `$journal`; `$mk` creates the writer from (buffer, keys, journal).
macro_rules! life {
    ($st:expr, $journal:expr, $bufsz:expr, $pad:expr, $frames:expr, $out:expr, |$buf:ident, $keys:ident, $j:ident| $mk:expr) => {{
        let mut buffer = vec![0u8; $bufsz];
        let $keys = DirectionalKeys { header: $st.keys.clone(), packet: $st.keys.clone() };
        let $j = &$journal;
        let before = $st.keys.nonces.lock().unwrap().len();
        let made = {
            let $buf = &mut buffer[..];
            $mk
        };
        match made {
            Err(_) => {
                $out.push(1);
            }
            Ok(mut w) => {
                let pn = w.packet_number();
                if assemble!(w, $frames, $pad) {
                    let (size, info) = w.encrypt_and_protect_packet();
                    let (width, trunc) = wire_pn(&buffer[..size]);
                    let nonces = $st.keys.nonces.lock().unwrap();
                    // exactly one AEAD call per packet; anything else is printed as -1
                    let nonce = if nonces.len() == before + 1 { nonces[before] as i128 } else { -1 };
                    $out.extend([0, info.packet_number() as i128, width, trunc, nonce]);
                } else {
                    drop(w);
                    $out.extend([2, pn as i128]);
                }
            }
        }
        let next = $journal.new_packet().pn().0;
        $out.push(next as i128);
    }};
}

fn rotate<T: Clone>(j: &ArcSentJournal<T>, args: &[i128], id: impl Fn(&T) -> i128, out: &mut Vec<i128>) {
    let mut g = j.rotate();
    for c in args.chunks(2).filter(|c| c.len() == 2) {
        let (k, p) = (c[0], c[1] as u64);
        match k {
            0 => {
                let v: Vec<T> = g.on_packet_acked(p).collect();
                out.push(v.len() as i128);
                out.extend(v.iter().map(&id));
            }
            1 => {
                let v: Vec<T> = g.may_loss_packet(p).collect();
                out.push(v.len() as i128);
                out.extend(v.iter().map(&id));
            }
            2 => {
                let v: Vec<T> = g.fast_retransmit().collect();
                out.push(v.len() as i128);
                out.extend(v.iter().map(&id));
            }
            _ => {
                let f = AckFrame::new(vi(p), vi(0), vi(0), vec![], None);
                out.push(if g.update_largest(&f).is_ok() { 0 } else { 1 });
            }
        }
    }
    drop(g);
}

fn gf_id(f: &GuaranteedFrame) -> i128 {
    match f {
        GuaranteedFrame::Reliable(ReliableFrame::MaxData(m)) => m.max_data() as i128,
        GuaranteedFrame::Crypto(c) => c.offset() as i128,
        _ => -1,
    }
}
fn cf_id(f: &CryptoFrame) -> i128 {
    f.offset() as i128
}

fn step(st: &mut St, op: &Op, _i: usize) -> Obs {
    let _g = st.rt.enter();
    let mut out: Vec<i128> = Vec::new();
    let r = catch_unwind(AssertUnwindSafe(|| match op.tag {
        0 => {
            st.rt.block_on(tokio::time::advance(Duration::from_millis(op.u(0))));
            out.push(Instant::now().saturating_duration_since(st.base).as_millis() as i128);
        }
        1 => {
            let (ty, bufsz, pad) = (op.u(0), (op.u(1) as usize).min(1 << 16), op.u(2) != 0);
            let (rto, exp) = (Duration::from_millis(op.u(3)), Duration::from_millis(op.u(4)));
            let frames = &op.args[5..];
            let b = LongHeaderBuilder::with_cid(dcid(), scid());
            match ty {
                0 => life!(st, st.initial, bufsz, pad, frames, out, |buf, keys, j| PacketWriter::new_long(b.initial(vec![]), buf, keys, j, rto, exp)),
                1 => life!(st, st.handshake, bufsz, pad, frames, out, |buf, keys, j| PacketWriter::new_long(b.handshake(), buf, keys, j, rto, exp)),
                2 => life!(st, st.data, bufsz, pad, frames, out, |buf, keys, j| PacketWriter::new_long(b.zero_rtt(), buf, keys, j, rto, exp)),
                _ => life!(st, st.data, bufsz, pad, frames, out, |buf, keys, j| PacketWriter::new_short(
                    OneRttHeader::new(SpinBit::Zero, dcid()),
                    buf,
                    keys,
                    KeyPhaseBit::Zero,
                    j,
                    rto,
                    exp
                )),
            }
        }
        2 => {
            let (ty, bufsz, pad) = (op.u(0), (op.u(1) as usize).min(1 << 16), op.u(2) != 0);
            let frames = &op.args[3..];
            let b = LongHeaderBuilder::with_cid(dcid(), scid());
            match ty {
                0 => life!(st, st.initial, bufsz, pad, frames, out, |buf, keys, j| TrivialPacketWriter::new_long(b.initial(vec![]), buf, keys, j)),
                1 => life!(st, st.handshake, bufsz, pad, frames, out, |buf, keys, j| TrivialPacketWriter::new_long(b.handshake(), buf, keys, j)),
                2 => life!(st, st.data, bufsz, pad, frames, out, |buf, keys, j| TrivialPacketWriter::new_long(b.zero_rtt(), buf, keys, j)),
                _ => life!(st, st.data, bufsz, pad, frames, out, |buf, keys, j| TrivialPacketWriter::new_short(
                    OneRttHeader::new(SpinBit::Zero, dcid()),
                    buf,
                    keys,
                    KeyPhaseBit::Zero,
                    j
                )),
            }
        }
        3 => match op.u(0) {
            0 => rotate(&st.initial, &op.args[1..], cf_id, &mut out),
            1 => rotate(&st.handshake, &op.args[1..], cf_id, &mut out),
            _ => rotate(&st.data, &op.args[1..], gf_id, &mut out),
        },
        4 => match op.u(0) {
            0 => out.extend(st.initial.verif_dump(st.base, cf_id)),
            1 => out.extend(st.handshake.verif_dump(st.base, cf_id)),
            _ => out.extend(st.data.verif_dump(st.base, gf_id)),
        },
        9 => {
            let v = op.args.first().copied().unwrap_or(0) as u64;
            out.extend([
                MaxDataFrame::new(vi(v)).encoding_size() as i128,
                PingFrame.encoding_size() as i128,
                PaddingFrame.encoding_size() as i128,
                ccf().encoding_size() as i128,
                PunchHelloFrame::new(1, 2, 3).encoding_size() as i128,
                ack().encoding_size() as i128,
                CryptoFrame::new(vi(v), vi(0)).encoding_size() as i128,
            ]);
        }
        _ => out.push(-99),
    }));
    if r.is_err() {
        out.clear();
        out.push(PANIC);
    }
    let mut o = Obs::new();
    o.0 = out;
    o
}

fn main() {
    hproto::run(new_case, step);
}
