#!/usr/bin/env python3
"""Regenerates every coq/Generated/*.v table from /repo's sources (translator step)."""
import os, sys
sys.path.insert(0, os.path.dirname(os.path.abspath(__file__)))
try:
    import extract_tables
except ImportError:
    extract_tables = None
if extract_tables is not None:
    extract_tables.regen_all()
try:
    import extract_sources
except ImportError:
    extract_sources = None
if extract_sources is not None:
    extract_sources.regen()
