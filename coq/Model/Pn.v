(* Model of qbase/src/packet/number.rs: PacketNumber::{encode, decode} and the wire form
   (put_packet_number / take_pn_len).  Definitions only.

   Integers are unbounded Z; every u64 operation of the Rust that can overflow is written as an
   explicit check with outcome [EncOverflow] / [DecOverflow] (a panic in the debug profile the
   harness runs), and the explicit `panic!("packet number too large to encode")` is [EncPanic].
   `x as u8/u16/u32` is `mod 2^k`.  `expected & !mask` is [Z.ldiff expected mask] and `|` is
   [Z.lor] — kept as bit operations on purpose: decode ORs the whole payload into the candidate,
   so a U24 whose payload exceeds 24 bits (constructible through the public enum; before the
   fix of F31 `PacketNumber::encode` itself returned `U24(pn as u32)`) decodes differently from
   its wire form.  [wire] is the put_packet_number / take_pn_len round trip (`put_u8(x>>16);
   put_u16(x)` drops the top byte of a U24).  Since the fix, encode returns
   `U24(pn as u32 & 0x00ff_ffff)` and the in-memory value equals the wire value. *)
From Coq Require Import List ZArith Bool.
Import ListNotations.
Local Open Scope Z_scope.

Inductive pnum := U8 (x : Z) | U16 (x : Z) | U24 (x : Z) | U32 (x : Z).

Inductive enc_res := EncOk (p : pnum) | EncOverflow | EncPanic.
Inductive dec_res := DecOk (v : Z) | DecOverflow.

Definition U64 : Z := 2^64.

Definition encode (pn la : Z) : enc_res :=
  if pn <? la then EncOverflow                      (* pn - largest_acked *)
  else
    let d := pn - la in
    if U64 <=? d * 2 then EncOverflow               (* (..) * 2 *)
    else
      let range := Z.max (d * 2) (2^16 - 1) in
      if range <? 2^8 then EncOk (U8 (pn mod 2^8))
      else if range <? 2^16 then EncOk (U16 (pn mod 2^16))
      else if range <? 2^24 then EncOk (U24 ((pn mod 2^32) mod 2^24))   (* `pn as u32 & 0x00ff_ffff` (fix F31) *)
      else if range <? 2^32 then EncOk (U32 (pn mod 2^32))
      else EncPanic.

Definition width (p : pnum) : Z :=
  match p with U8 _ => 1 | U16 _ => 2 | U24 _ => 3 | U32 _ => 4 end.
Definition payload (p : pnum) : Z :=
  match p with U8 x | U16 x | U24 x | U32 x => x end.

(* put_packet_number followed by take_pn_len(size): only U24 changes (top byte dropped) *)
Definition wire (p : pnum) : pnum :=
  match p with
  | U24 x => U24 (((x / 2^16) mod 2^8) * 2^16 + x mod 2^16)
  | _ => p
  end.

Definition decode (p : pnum) (expected : Z) : dec_res :=
  let truncated := payload p in
  let nbits := 8 * width p in
  let win := 2 ^ nbits in
  let hwin := win / 2 in
  let mask := win - 1 in
  let candidate := Z.lor (Z.ldiff expected mask) truncated in
  if (hwin <=? expected) && (candidate <=? expected - hwin) then
    if U64 <=? candidate + win then DecOverflow else DecOk (candidate + win)
  else if U64 <=? expected + hwin then DecOverflow
  else if (expected + hwin <? candidate) && (win <? candidate) then DecOk (candidate - win)
  else DecOk candidate.

(* ------------------------------------------------------------------ *)
(* stream `pn` *)

Definition print_enc (r : enc_res) : list Z :=
  match r with
  | EncOk p => [0; width p; payload p]
  | _ => [1]                                   (* any panic *)
  end.
Definition print_dec (r : dec_res) : list Z :=
  match r with DecOk v => [0; v] | DecOverflow => [1] end.

Definition mk_pnum (w x : Z) : pnum :=
  if w =? 1 then U8 x else if w =? 2 then U16 x else if w =? 3 then U24 x else U32 x.

Definition pn_step (t : N) (args : list Z) : list Z :=
  match t, args with
  | 0%N, [pn; la; exp] =>
      match encode pn la with
      | EncOk p => print_enc (EncOk p) ++ [payload (wire p)] ++ print_dec (decode p exp) ++ print_dec (decode (wire p) exp)
      | r => print_enc r
      end
  | 1%N, [w; x; exp] => print_dec (decode (mk_pnum w x) exp)
  | _, _ => [-99]
  end.

Definition run_pn (cfg : list Z) (l : list (N * list Z)) : list (list Z) :=
  map (fun o => pn_step (fst o) (snd o)) l.
