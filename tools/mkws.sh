#!/bin/sh
# mkws.sh <name> : private workspace for a sub-agent: copy of /verif + git worktree of /repo
set -e
W=/tmp/wa_$1
rm -rf $W; mkdir -p $W
rsync -a --exclude .git --exclude .build/cargo --exclude .build/tmp /verif/ $W/verif/
git -C /repo worktree add --detach $W/repo HEAD >/dev/null 2>&1
ln -sfn $W/repo $W/verif/rp
echo $W
