//! Correspondence stream `qlog` (C20): the telemetry layer of qevent driven the way the transport drives it.
//! One case = one thread-local span history.  The receive path of `qconnection::space::read_plain_packet`
//! (FrameReader -> QuicFramesCollector::extend([&frame]) -> dispatch -> event!(PacketReceived{..})) and the loss
//! path of `may_loss` (QuicFramesCollector::<PacketLost>) run on real wire bytes under every exporter
//! configuration: no span at all, the stock NoopLogger, a channel exporter (the real
//! `impl ExportEvent for UnboundedSender<Event>`) whose receiver is alive or already gone, a filtering exporter
//! (per-scheme mask, raw data on/off) and the stock LegacySeqLogger writing to a sink that can start failing.
//!
//! ops (see coq/Model/QlogSpan.v):
//!   0 kind mask gid     install the exporter and enter its span (kind 0 none | 1 NoopLogger | 2 channel |
//!                       3 filtered channel: mask bit0 packet_received, bit1 packet_lost, bit2 raw data |
//!                       4 LegacySeqLogger); gid != 0: the span carries a group_id      obs: kind
//!   1                   the capturing side goes away (receiver dropped / the sink starts failing)   obs: -
//!   2 ptype pn bytes..  receive a packet payload                                        obs: app -7 log
//!   3 ptype pn bytes..  declare the packet with these frames lost                       obs: app -7 log
//!   5                   let the logger's writer task run                                obs: -
//! app = (0 consumed typecode | 1 errcode)* as the codec stream's op 2: what the dispatcher saw;
//! log = 0 (nothing visible to the capturing side) | 1 gid_present parse_back n (tag fields..)*
use std::{
    io,
    pin::Pin,
    sync::{
        Arc,
        atomic::{AtomicBool, Ordering},
    },
    task::{Context, Poll},
};

use bytes::Bytes;
use hproto::{Obs, Op};
use qbase::{
    frame::{Error, Frame, FrameReader},
    packet::{
        SpinBit,
        r#type::{
            Type,
            long::{Type::V1, Ver1},
            short::OneRtt,
        },
    },
    varint::VarInt,
};
use qevent::{
    BeSpecificEventData, Event, GroupID, VantagePointType,
    quic::{
        PacketHeader, PacketType, QuicFrame, QuicFramesCollector, recovery::PacketLost,
        transport::PacketReceived,
    },
    telemetry::{
        Entered, ExportEvent, QLog, Span,
        handy::{LegacySeqLogger, NoopLogger, TelemetryStorage},
    },
};
use serde_json::Value;
use tokio::sync::mpsc;

fn ptype(v: u64) -> Type {
    match v {
        0 => Type::Long(V1(Ver1::INITIAL)),
        1 => Type::Long(V1(Ver1::HANDSHAKE)),
        2 => Type::Long(V1(Ver1::ZERO_RTT)),
        _ => Type::Short(OneRtt(SpinBit::Zero)),
    }
}

fn ferr_code(e: &Error) -> u8 {
    match e {
        Error::NoFrames => 0,
        Error::IncompleteType(_) => 1,
        Error::InvalidType(_) => 2,
        Error::WrongType(..) => 3,
        Error::IncompleteFrame(..) => 4,
        Error::ParseError(..) => 5,
    }
}

/// exporter of configuration 3: forwards to the real channel exporter, filters by scheme
struct Filtered {
    inner: mpsc::UnboundedSender<Event>,
    mask: u64,
}

impl ExportEvent for Filtered {
    fn emit(&self, event: Event) {
        ExportEvent::emit(&self.inner, event)
    }
    fn filter_event(&self, scheme: &'static str) -> bool {
        if scheme == PacketReceived::scheme() {
            self.mask & 1 != 0
        } else if scheme == PacketLost::scheme() {
            self.mask & 2 != 0
        } else {
            true
        }
    }
    fn filter_raw_data(&self) -> bool {
        self.mask & 4 != 0
    }
}

/// sink of configuration 4: accepts everything until told to fail
#[derive(Clone)]
struct Sink {
    fail: Arc<AtomicBool>,
}

impl tokio::io::AsyncWrite for Sink {
    fn poll_write(self: Pin<&mut Self>, _: &mut Context<'_>, buf: &[u8]) -> Poll<io::Result<usize>> {
        if self.fail.load(Ordering::Relaxed) {
            Poll::Ready(Err(io::Error::new(io::ErrorKind::BrokenPipe, "sink closed")))
        } else {
            Poll::Ready(Ok(buf.len()))
        }
    }
    fn poll_flush(self: Pin<&mut Self>, _: &mut Context<'_>) -> Poll<io::Result<()>> {
        Poll::Ready(Ok(()))
    }
    fn poll_shutdown(self: Pin<&mut Self>, _: &mut Context<'_>) -> Poll<io::Result<()>> {
        Poll::Ready(Ok(()))
    }
}

impl TelemetryStorage for Sink {
    #[allow(clippy::manual_async_fn)]
    fn join(
        &self,
        _: &str,
    ) -> impl Future<Output = impl tokio::io::AsyncWrite + Send + Unpin + 'static> + Send + 'static {
        let sink = self.clone();
        async move { sink }
    }
}

struct St {
    rt: tokio::runtime::Runtime,
    guard: Option<Entered>,
    rx: Option<mpsc::UnboundedReceiver<Event>>,
    fail: Arc<AtomicBool>,
}

fn new_case(_: &[&str]) -> St {
    // whatever an earlier (possibly panicked) case left in the thread-local goes away for good
    std::mem::forget(Span::default().enter());
    St {
        rt: tokio::runtime::Builder::new_current_thread().enable_all().start_paused(true).build().unwrap(),
        guard: None,
        rx: None,
        fail: Arc::new(AtomicBool::new(false)),
    }
}

fn tick(st: &mut St) {
    st.rt.block_on(async {
        for _ in 0..16 {
            tokio::task::yield_now().await;
        }
    });
}

fn install(st: &mut St, kind: u64, mask: u64, gid: bool) {
    st.guard = None;
    st.rx = None;
    st.fail = Arc::new(AtomicBool::new(false));
    std::mem::forget(Span::default().enter());
    let group = GroupID::from("c20".to_owned());
    let span = match kind {
        0 => return,
        1 => NoopLogger.new_trace(VantagePointType::Client, group),
        2 => {
            let (tx, rx) = mpsc::unbounded_channel::<Event>();
            st.rx = Some(rx);
            if gid {
                qevent::span!(Arc::new(tx), group_id = group)
            } else {
                qevent::span!(Arc::new(tx))
            }
        }
        3 => {
            let (tx, rx) = mpsc::unbounded_channel::<Event>();
            st.rx = Some(rx);
            let exporter = Arc::new(Filtered { inner: tx, mask });
            if gid {
                qevent::span!(exporter, group_id = group)
            } else {
                qevent::span!(exporter)
            }
        }
        _ => {
            let _in_rt = st.rt.enter();
            LegacySeqLogger::new(Sink { fail: st.fail.clone() }).new_trace(VantagePointType::Server, group)
        }
    };
    st.guard = Some(span.enter());
}

fn num(j: Option<&Value>, o: &mut Obs) {
    match j {
        None | Some(Value::Null) => o.push(-1),
        Some(Value::Number(n)) => match n.as_u64() {
            Some(u) => o.push(u),
            None => o.push(-2),
        },
        Some(Value::Bool(b)) => o.push(*b as u8),
        Some(_) => o.push(-2),
    };
}

fn raw(j: Option<&Value>, o: &mut Obs) {
    num(j.and_then(|r| r.get("length")), o);
    num(j.and_then(|r| r.get("payload_length")), o);
    match j.and_then(|r| r.get("data")) {
        Some(Value::String(s)) => o.push_usize(s.len() / 2),
        _ => o.push(-1),
    };
}

fn stream_type(j: Option<&Value>, o: &mut Obs) {
    match j.and_then(Value::as_str) {
        Some("unidirectional") => o.push(1),
        Some("bidirectional") => o.push(0),
        _ => o.push(-2),
    };
}

const TAGS: [&str; 22] = [
    "padding", "ping", "ack", "reset_stream", "stop_sending", "crypto", "new_token", "stream", "max_data",
    "max_stream_data", "max_streams", "data_blocked", "stream_data_blocked", "streams_blocked", "new_connection_id",
    "retire_connection_id", "path_challenge", "path_response", "connection_close", "handshake_done", "unknow", "datagram",
];

/// what a reader of the log sees of one frame
fn logged_frame(f: &Value, o: &mut Obs) {
    let tag = f.get("frame_type").and_then(Value::as_str).and_then(|t| TAGS.iter().position(|x| *x == t));
    let Some(tag) = tag else {
        o.push(-3);
        return;
    };
    o.push_usize(tag);
    let g = |k: &str| f.get(k);
    match tag {
        0 | 1 => {
            num(g("length"), o);
            num(g("payload_length"), o);
        }
        2 => {
            let rs = g("acked_ranges").and_then(Value::as_array).cloned().unwrap_or_default();
            o.push_usize(rs.len());
            for r in &rs {
                num(r.get(0), o);
                num(r.get(1), o);
            }
            num(g("ect0"), o);
            num(g("ect1"), o);
            num(g("ce"), o);
            num(g("length"), o);
        }
        3 => {
            num(g("stream_id"), o);
            num(g("error_code"), o);
            num(g("final_size"), o);
        }
        4 => {
            num(g("stream_id"), o);
            num(g("error_code"), o);
        }
        5 => {
            num(g("offset"), o);
            num(g("length"), o);
            num(g("payload_length"), o);
            raw(g("raw"), o);
        }
        6 => raw(g("token").and_then(|t| t.get("raw")), o),
        7 => {
            num(g("stream_id"), o);
            num(g("offset"), o);
            num(g("length"), o);
            num(g("fin"), o);
            raw(g("raw"), o);
        }
        8 => num(g("maximum"), o),
        9 => {
            num(g("stream_id"), o);
            num(g("maximum"), o);
        }
        10 => {
            stream_type(g("stream_type"), o);
            num(g("maximum"), o);
        }
        11 => num(g("limit"), o),
        12 => {
            num(g("stream_id"), o);
            num(g("limit"), o);
        }
        13 => {
            stream_type(g("stream_type"), o);
            num(g("limit"), o);
        }
        14 => {
            num(g("sequence_number"), o);
            num(g("retire_prior_to"), o);
            num(g("connection_id_length"), o);
        }
        15 => num(g("sequence_number"), o),
        16 | 17 => {
            match g("data") {
                Some(Value::String(s)) => o.push_usize(s.len() / 2),
                _ => o.push(-1),
            };
        }
        18 => {
            match g("error_space").and_then(Value::as_str) {
                Some("transport") => o.push(0),
                Some("application") => o.push(1),
                _ => o.push(-2),
            };
            // a named (transport / crypto) error is a string, an application error code a number
            match g("error_code") {
                Some(Value::String(_)) => {
                    o.push(-4);
                }
                other => num(other, o),
            }
            num(g("trigger_frame_type"), o);
        }
        19 => {}
        20 => num(g("frame_type_bytes"), o),
        _ => {
            num(g("length"), o);
            raw(g("raw"), o);
        }
    }
}

/// everything the capturing side received since the last look
fn drain(st: &mut St, o: &mut Obs, expect_name: &str) {
    let mut events = vec![];
    if let Some(rx) = st.rx.as_mut() {
        while let Ok(e) = rx.try_recv() {
            events.push(e);
        }
    }
    if events.is_empty() {
        o.push(0);
        return;
    }
    for event in events {
        let j = serde_json::to_value(&event).expect("to_value");
        let ok = j.get("time").is_some_and(Value::is_number)
            && j.get("name").and_then(Value::as_str) == Some(expect_name)
            && j.get("data").is_some_and(Value::is_object);
        o.push(if ok { 1 } else { 9 });
        o.push_bool(j.get("group_id").is_some());
        // the JSON has to parse back to the event that was emitted
        let back = match serde_json::from_value::<Event>(j.clone()) {
            Ok(e) => (e == event) as i128,
            Err(_) => 2,
        };
        o.push(back);
        let frames = j["data"].get("frames").and_then(Value::as_array).cloned().unwrap_or_default();
        o.push_usize(frames.len());
        for f in &frames {
            logged_frame(f, o);
        }
    }
}

fn packet_type(v: u64) -> PacketType {
    match v {
        0 => PacketType::Initial,
        1 => PacketType::Handshake,
        2 => PacketType::ZeroRTT,
        _ => PacketType::OneRTT,
    }
}

/// qconnection::space::read_plain_packet + PlainPacket::log_received
fn receive(st: &mut St, op: &Op, o: &mut Obs) {
    let pn = op.u(1);
    let mut frames_collector = QuicFramesCollector::<PacketReceived>::new();
    let reader = FrameReader::new(Bytes::from(op.bytes_from(2)), ptype(op.u(0)));
    let total = op.args.len() - 2;
    let mut before = total;
    let mut it = reader;
    let mut failed = false;
    for _ in 0..=total + 1 {
        match it.next() {
            None => break,
            Some(Ok((frame, ft))) => {
                frames_collector.extend([&frame]);
                // dispatch_frame(frame): what the rest of the connection is handed
                let now = it.len();
                o.push(0u8).push_usize(before - now).push(VarInt::from(ft).into_u64());
                before = now;
            }
            Some(Err(e)) => {
                o.push(1u8).push(ferr_code(&e));
                failed = true;
                break;
            }
        }
    }
    if !failed {
        let kind = packet_type(op.u(0));
        qevent::event!(PacketReceived {
            header: PacketHeader {
                packet_type: kind,
                packet_number: pn
            },
            frames: frames_collector,
        });
    }
    o.push(-7);
    drain(st, o, "quic:packet_received");
}

/// Feedback::may_loss of the data / handshake spaces
fn lose(st: &mut St, op: &Op, o: &mut Obs) {
    let pn = op.u(1);
    let mut may_lost_frames = QuicFramesCollector::<PacketLost>::new();
    let reader = FrameReader::new(Bytes::from(op.bytes_from(2)), ptype(op.u(0)));
    let total = op.args.len() - 2;
    let mut before = total;
    let mut it = reader;
    let mut failed = false;
    for _ in 0..=total + 1 {
        match it.next() {
            None => break,
            Some(Ok((frame, ft))) => {
                match &frame {
                    Frame::Stream(f, _) => may_lost_frames.extend([f]),
                    Frame::Crypto(f, _) => may_lost_frames.extend([f]),
                    other => may_lost_frames.extend([other]),
                }
                let now = it.len();
                o.push(0u8).push_usize(before - now).push(VarInt::from(ft).into_u64());
                before = now;
            }
            Some(Err(e)) => {
                o.push(1u8).push(ferr_code(&e));
                failed = true;
                break;
            }
        }
    }
    if !failed {
        let kind = packet_type(op.u(0));
        qevent::event!(PacketLost {
            header: PacketHeader {
                packet_type: kind,
                packet_number: pn
            },
            frames: may_lost_frames,
            is_mtu_probe_packet: false,
        });
    }
    o.push(-7);
    drain(st, o, "quic:packet_lost");
}

fn step(st: &mut St, op: &Op, _i: usize) -> Obs {
    let mut o = Obs::new();
    match op.tag {
        0 if op.args.len() == 3 => {
            install(st, op.u(0), op.u(1), op.args[2] != 0);
            o.push(op.args[0]);
        }
        1 => {
            st.rx = None;
            st.fail.store(true, Ordering::Relaxed);
        }
        2 if op.args.len() >= 2 => receive(st, op, &mut o),
        3 if op.args.len() >= 2 => lose(st, op, &mut o),
        5 => tick(st),
        _ => {
            o.push(-99);
        }
    }
    o
}

fn main() {
    hproto::run(new_case, step);
}

#[allow(dead_code)]
fn _unused(_: QuicFrame) {}
