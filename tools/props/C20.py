"""C20 (addressable part) — every qevent event serialises to a JSON object with the mandatory qlog
fields and parses back to an equal event.  NOT claimed: "never panics for lack of span context" and
"same application-visible behaviour with logging on/off" (whole-stack properties, see MANIFEST note) -- of these, the stream `qlog`
(second half of this file) covers the deterministic formulation one layer down: the receive path of read_plain_packet and the loss path of
may_loss on arbitrary payload bytes under every exporter configuration and receiver lifetime never panic, hand the dispatcher the same frames
whatever the exporter, and deliver exactly the events that pass the filter to a live receiver (theorems c20_log_*)."""
import struct

import extract_qevent as xq
from vlib import Case

PROP_FILE = "Properties/C20.v"
RULE = ("cases = batches of ops over the types of the regenerated qevent schema table: BUILD(type, value) constructs the value through "
        "the public builders/constructors (all new-format types; a validated type's builder is handed ANY well-typed field values, "
        "including the combination its validator refuses), serialises with serde_json::to_value and parses back; DE(type, json) "
        "parses a JSON tree (reference serialisation of a random value, or a mutated one: key dropped/added, wrong scalar type, "
        "out-of-range integer, null), re-serialises and parses again (all types incl. the legacy format). Values: optional fields "
        "present/absent, empty/long/non-ASCII strings, boundary integers of each width, every enum variant, empty/non-empty sequences "
        "(the skipped-when-empty fields hold the empty vector/map in about a third of their occurrences), "
        "custom-field maps. A case is non-trivial when some op carries a struct with both a present and an absent optional field and "
        "a boundary integer or a non-first enum variant; distinct by hash of the op list")
TRUSTED_BASE = ["tools/extract_qevent.py: translator from the serde/derive_builder attributes in qevent/src to coq/Generated/QeventSchema.v "
                "and to the harness dispatch tables (fail-closed; hand-written Serialize impls are matched against fingerprints)",
                "floats are opaque tokens in the model (finite f32/f64 assumed to round-trip through serde_json::Value exactly)",
                "the Python reference serialiser in tools/props/C20.py (third implementation used by the oracle)"]
MODELLED = ("serde derive semantics for the attribute set qevent uses (rename/rename_all, skip_serializing_if, serde_with::skip_serializing_none, "
            "default, flatten, transparent/newtype, tag/content/untagged, try_from validator of ReferenceTime and the derive_builder "
            "field(build = ..) expression of its epoch field, serde_with hex) over "
            "qevent/src/lib.rs, loglevel.rs, quic.rs, quic/*.rs, legacy.rs, legacy/quic.rs; serde_json::Value as a JSON tree")
ASSUMPTIONS = ["serde derive / serde_json / serde_with behave as modelled by ser/de of coq/Model/Serde.v (checked by the correspondence run, not proved)",
               "floating-point fields hold finite values (NaN/inf serialise to null and do not parse back: out of scope)",
               "value-level side conditions of `conformsb`: integers within their Rust type, custom-field keys distinct from schema keys (F53), "
               "an untagged alternative's JSON is not accepted by an earlier alternative (F51). No longer assumptions: a skipped field comes "
               "back from its missing-value (c20_skips_ok: true of every field of every type since the repair of F50) and the "
               "ReferenceTime validator (c20_reference_time_builder: true of everything the builder builds since the repair of F52; "
               "ReferenceTime has no other public constructor than builder, Default = system clock, and Deserialize)"]
MANIFEST = {
    "text": "PARTIAL (serde well-formedness clauses only). Machine-checked Coq theorems (Properties/C20.v) over a schema language for the serde "
            "shapes qevent derives (structs with renamed/skipped/defaulted/flattened fields, Option, sequences, string-keyed maps, hex bytes, "
            "unit/internally/adjacently/externally tagged and untagged enums, try_from validators) with generic ser/de over JSON trees: "
            "for every well-formed schema and every conforming value de(ser v) = v; every serialised Event (new and legacy format) carries "
            "time, name and data (and group_id exactly when set); the schema of every qevent type, regenerated from qevent/src on every run, "
            "is well-formed, every field that is skipped on output (None, empty Vec, empty map) has the skipped value as its serde default at "
            "every depth of every type (F50 repaired: events with empty vectors parse back; the shape without the default is refuted by name), "
            "and whatever field values the ReferenceTime builder is given, the value it builds satisfies the type's try_from validator and "
            "parses back (F52 repaired; the builder as it was is refuted by name). Still open and excluded through `conformsb` (known "
            "findings): an untagged enum alternative shadowed by an earlier one (F51), a custom field named like a schema key (F53). "
            "Model and crate are run on the same values/JSON trees every check (builders -> to_value -> from_value, and "
            "from_value -> to_value -> from_value), plus a direct oracle on the implementation.",
    "note": "The no-panic and purely-observational clauses are proved and checked at the telemetry layer (stream `qlog`, theorems c20_log_*): for every "
            "payload, exporter state (no span, no-op, channel with the receiver alive or dropped, filtering, the stock LegacySeqLogger with a failing sink) "
            "and history, the frame-to-qlog conversion and emission never panic on anything the frame reader delivers, the dispatcher's record of a packet is "
            "the frame reader's output and identical under any two exporter states, a live receiver gets exactly the events passing the filter and nothing "
            "is delivered otherwise. Still not claimed: a call site asking the thread-local span for a field that was never set (Span::load, whole-program "
            "property) and non-interference of the complete connection (the send path through PacketWriter needs real packet keys). "
            "Trusted: Coq kernel, schema translator, extraction, harness, Python reference serialiser. serde-derive semantics are "
            "modelled, tied to the real derive output only by correspondence. Floats are opaque tokens.",
    "technique": "Coq proof (mutual induction over the schema datatype; vm_compute over the regenerated schema table) + differential correspondence",
}


def regen():
    xq.regen()


# --------------------------------------------------------------------------------------
# schema access
# --------------------------------------------------------------------------------------
def TR():
    return xq.load()


def strip(s):
    while s[0] in ("named", "refine"):
        s = s[2]
    return s


def flat_keys(s):
    s = strip(s)
    if s[0] == "struct" and not s[2] and not s[3]:
        return [f[0] for f in s[1]]
    if s[0] == "enum" and s[1][0] == "adj":
        return [s[1][1], s[1][2]]
    return []


def static_keys(s):
    return [f[0] for f in s[1]] + [k for fl in s[2] for k in flat_keys(fl)]


def skip_ok(skip, d, s):
    if skip == "never":
        return True
    if skip == "none":
        return s[0] == "opt" and d in (None, ("VNone",))
    return (s[0] == "seq" and d == ("VSeq", [])) or (s[0] == "any" and d == ("VMap", []))


# --------------------------------------------------------------------------------------
# reference serialiser (written from the serde documentation, independent of the Coq model)
# --------------------------------------------------------------------------------------
HEX = "0123456789abcdef"
UNIT = ("VStruct", [], [], [])


def py_ser(s, v):
    t = s[0]
    if t in ("named", "refine"):
        return py_ser(s[2], v)
    if t == "int":
        return ("int", v[1])
    if t == "float":
        return ("float", v[1])
    if t == "bool":
        return ("bool", v[1])
    if t == "str":
        return ("str", v[1])
    if t == "hex":
        return ("str", "".join(HEX[b >> 4] + HEX[b & 15] for b in v[1]))
    if t == "hexsuffix":
        return ("str", s[1] + "%02x" % v[1])
    if t == "opt":
        return ("null",) if v[0] == "VNone" else py_ser(s[1], v[1])
    if t == "seq":
        return ("arr", [py_ser(s[1], x) for x in v[1]])
    if t == "arr":
        return ("arr", [py_ser(s[2], x) for x in v[1]])
    if t == "any":
        return ("obj", list(v[1]))
    if t == "struct":
        out = ser_fields(s[1], v[1])
        for fs, fv in zip(s[2], v[2]):
            j = py_ser(fs, fv)
            out += j[1] if j[0] == "obj" else []
        return ("obj", out + list(v[3]))
    if t == "enum":
        name, untag, shape = s[2][v[1]]
        tg = s[1]
        if shape[0] == "unit":
            pj = None
        elif shape[0] == "new":
            pj = py_ser(shape[1], v[2])
        else:
            pj = ("obj", ser_fields(shape[1], v[2][1]))
        if untag or tg[0] == "untagged":
            return ("null",) if pj is None else pj
        if tg[0] == "ext":
            return ("str", name) if pj is None else ("obj", [(name, pj)])
        if tg[0] == "int":
            return ("obj", [(tg[1], ("str", name))] + ([] if pj is None else (pj[1] if pj[0] == "obj" else [])))
        return ("obj", [(tg[1], ("str", name))] + ([] if pj is None else [(tg[2], pj)]))
    raise ValueError(t)


def refine_ok(pid, v):
    """try_from validators. 0 and 1: ReferenceTime — clock_type monotonic (variant 1) requires epoch Unknow (variant 0)"""
    if pid in (0, 1):
        return not (v[0] == "VStruct" and v[1][0] == ("VEnum", 1, UNIT) and v[1][1][1] != 0)
    return True


def py_build(s, v):
    """the value the public builders store when handed the field values v: the identity except for ReferenceTime whose
    builder (validator/builder number 1) stores epoch Unknow whenever the clock type is monotonic"""
    t = s[0]
    if t == "named":
        return py_build(s[2], v)
    if t == "refine":
        v = py_build(s[2], v)
        if s[1] == 1 and not refine_ok(1, v):
            v = ("VStruct", [v[1][0], ("VEnum", 0, UNIT)] + list(v[1][2:]), v[2], v[3])
        return v
    if t == "opt":
        return ("VSome", py_build(s[1], v[1])) if v[0] == "VSome" else v
    if t in ("seq", "arr"):
        return ("VSeq", [py_build(s[-1], x) for x in v[1]])
    if t == "struct":
        return ("VStruct", [py_build(f[3], x) for f, x in zip(s[1], v[1])], [py_build(fs, x) for fs, x in zip(s[2], v[2])], v[3])
    if t == "enum":
        shape = s[2][v[1]][2]
        if shape[0] == "new":
            return ("VEnum", v[1], py_build(shape[1], v[2]))
        if shape[0] == "struct":
            p = v[2]
            return ("VEnum", v[1], ("VStruct", [py_build(f[3], x) for f, x in zip(shape[1], p[1])], p[2], p[3]))
    return v


def ser_fields(fields, vals):
    out = []
    for (key, skip, d, fs), fv in zip(fields, vals):
        if skip == "none" and fv[0] == "VNone":
            continue
        if skip == "empty" and fv[0] in ("VSeq", "VMap") and not fv[1]:
            continue
        out.append((key, py_ser(fs, fv)))
    return out


def canon(j):
    if j[0] == "arr":
        return ("arr", [canon(x) for x in j[1]])
    if j[0] == "obj":
        d = {}
        for key, v in j[1]:
            d[key] = canon(v)
        return ("obj", sorted(d.items()))
    return j


# --------------------------------------------------------------------------------------
# integer encodings (same as coq/Model/Serde.v)
# --------------------------------------------------------------------------------------
def enc_str(x):
    return [len(x)] + [ord(c) for c in x]


def enc_json(j):
    t = j[0]
    if t == "null":
        return [0]
    if t == "bool":
        return [1, 1 if j[1] else 0]
    if t == "int":
        return [2, j[1]]
    if t == "float":
        return [3, j[1]]
    if t == "str":
        return [4] + enc_str(j[1])
    if t == "arr":
        out = [5, len(j[1])]
        for x in j[1]:
            out += enc_json(x)
        return out
    out = [6, len(j[1])]
    for key, v in j[1]:
        out += enc_str(key) + enc_json(v)
    return out


def enc_value(v):
    t = v[0]
    if t == "VInt":
        return [0, v[1]]
    if t == "VFloat":
        return [1, v[1]]
    if t == "VBool":
        return [2, 1 if v[1] else 0]
    if t == "VStr":
        return [3] + enc_str(v[1])
    if t == "VBytes":
        return [4, len(v[1])] + list(v[1])
    if t == "VNone":
        return [5]
    if t == "VSome":
        return [6] + enc_value(v[1])
    if t == "VSeq":
        out = [7, len(v[1])]
        for x in v[1]:
            out += enc_value(x)
        return out
    if t == "VStruct":
        out = [8, len(v[1])]
        for x in v[1]:
            out += enc_value(x)
        out.append(len(v[2]))
        for x in v[2]:
            out += enc_value(x)
        out.append(len(v[3]))
        for key, j in v[3]:
            out += enc_str(key) + enc_json(j)
        return out
    if t == "VEnum":
        return [9, v[1]] + enc_value(v[2])
    if t == "VMap":
        out = [10, len(v[1])]
        for key, j in v[1]:
            out += enc_str(key) + enc_json(j)
        return out
    raise ValueError(t)


class Reader:
    def __init__(self, a):
        self.a, self.i = a, 0

    def next(self):
        v = self.a[self.i]
        self.i += 1
        return v

    def string(self):
        n = self.next()
        return "".join(chr(self.next()) for _ in range(n))

    def json(self):
        t = self.next()
        if t == 0:
            return ("null",)
        if t == 1:
            return ("bool", self.next() != 0)
        if t == 2:
            return ("int", self.next())
        if t == 3:
            return ("float", self.next())
        if t == 4:
            return ("str", self.string())
        if t == 5:
            return ("arr", [self.json() for _ in range(self.next())])
        if t == 6:
            return ("obj", self.entries())
        raise ValueError("json tag %s" % t)

    def entries(self):
        out = []
        for _ in range(self.next()):
            key = self.string()
            out.append((key, self.json()))
        return out

    def value(self):
        t = self.next()
        if t == 0:
            return ("VInt", self.next())
        if t == 1:
            return ("VFloat", self.next())
        if t == 2:
            return ("VBool", self.next() != 0)
        if t == 3:
            return ("VStr", self.string())
        if t == 4:
            n = self.next()
            return ("VBytes", [self.next() for _ in range(n)])
        if t == 5:
            return ("VNone",)
        if t == 6:
            return ("VSome", self.value())
        if t == 7:
            return ("VSeq", [self.value() for _ in range(self.next())])
        if t == 8:
            r = [self.value() for _ in range(self.next())]
            f = [self.value() for _ in range(self.next())]
            return ("VStruct", r, f, self.entries())
        if t == 9:
            i = self.next()
            return ("VEnum", i, self.value())
        if t == 10:
            return ("VMap", self.entries())
        raise ValueError("value tag %s" % t)


def flat_args(args):
    out = []
    for a in args:
        if isinstance(a, (bytes, bytearray)):
            out += list(a)
        else:
            out.append(a)
    return out


# --------------------------------------------------------------------------------------
# known defect classes, as predicates on the *input* (independent of the implementation)
# --------------------------------------------------------------------------------------
# the defect classes are pinned to the places where they are known (mirrors coq/Proofs/Serde.v known_defects):
# a new shadowed alternative is NOT classified and surfaces as a violation
# F50 (skipped-when-empty Vec fields without serde default) and F52 (ReferenceTime builder vs its validator) are REPAIRED:
# no class absorbs them any more; an empty vector in any field / any ReferenceTime the builder is asked for must round-trip.
KNOWN_F51 = {("TimeClockType", 2), ("TimeEpoch", 1), ("quic::connectivity::ConnectionState", 1), ("quic::ConnectionCloseErrorCode", 2),
             ("legacy::quic::ConnectionCloseErrorCode", 1), ("legacy::quic::StreamDataLocation", 4)}


def accepts_string(s, x):
    """does a serde alternative of schema s accept the JSON string x"""
    s = strip(s)
    t = s[0]
    if t == "str":
        return True
    if t == "hex":
        return len(x) % 2 == 0 and all(c in "0123456789abcdefABCDEF" for c in x) and s[1] <= len(x) // 2 and (s[2] is None or len(x) // 2 <= s[2])
    if t == "hexsuffix":
        r = x[len(s[1]):]
        return x.startswith(s[1]) and 0 < len(r) and all(c in "0123456789abcdefABCDEF" for c in r) and int(r, 16) <= 255
    if t == "opt":
        return accepts_string(s[1], x)
    if t == "enum":
        for name, untag, shape in s[2]:
            if not untag and s[1][0] == "ext" and shape[0] == "unit" and name == x:
                return True
        for name, untag, shape in s[2]:
            if (untag or s[1][0] == "untagged") and shape[0] == "new" and accepts_string(shape[1], x):
                return True
    return False


def classes(s, v, acc=None, where=None):
    """labels of the known defect classes the value (of schema s) falls in"""
    acc = set() if acc is None else acc
    t = s[0]
    if t == "named":
        classes(s[2], v, acc, s[1])
    elif t == "refine":
        classes(s[2], v, acc, where)
    elif t == "opt":
        if v[0] == "VSome":
            classes(s[1], v[1], acc, where)
    elif t in ("seq", "arr"):
        for x in v[1]:
            classes(s[-1], x, acc, where)
    elif t == "struct":
        class_fields(s[1], v[1], acc, where)
        for fs, fv in zip(s[2], v[2]):
            classes(fs, fv, acc, where)
        if set(key for key, _ in v[3]) & set(static_keys(s)):
            acc.add("F53")
    elif t == "enum":
        name, untag, shape = s[2][v[1]]
        if shape[0] == "new":
            classes(shape[1], v[2], acc, where)
            if (untag or s[1][0] == "untagged") and (where, v[1]) in KNOWN_F51:
                j = py_ser(shape[1], v[2])
                if j[0] == "str":
                    earlier = ("enum", s[1], s[2][:v[1]])
                    if accepts_string(earlier, j[1]):
                        acc.add("F51")
        elif shape[0] == "struct":
            class_fields(shape[1], v[2][1], acc, where)
    return acc


def features(s, v, acc=None):
    """labels of the repaired classes a BUILD value exercises (for the histogram): a skipped-when-empty field holding the
    empty vector/map (F50), a validated type handed field values its validator refuses (F52)"""
    acc = set() if acc is None else acc
    t = s[0]
    if t == "named":
        features(s[2], v, acc)
    elif t == "refine":
        if not refine_ok(s[1], v):
            acc.add("regress:F52-builder-given-refused-combination")
        features(s[2], v, acc)
    elif t == "opt":
        if v[0] == "VSome":
            features(s[1], v[1], acc)
    elif t in ("seq", "arr"):
        for x in v[1]:
            features(s[-1], x, acc)
    elif t == "struct":
        feature_fields(s[1], v[1], acc)
        for fs, fv in zip(s[2], v[2]):
            features(fs, fv, acc)
    elif t == "enum":
        shape = s[2][v[1]][2]
        if shape[0] == "new":
            features(shape[1], v[2], acc)
        elif shape[0] == "struct":
            feature_fields(shape[1], v[2][1], acc)
    return acc


def feature_fields(fields, vals, acc):
    for (key, skip, d, fs), fv in zip(fields, vals):
        if skip == "empty" and fv[0] in ("VSeq", "VMap") and not fv[1]:
            acc.add("regress:F50-empty-skipped-field")
        features(fs, fv, acc)


def class_fields(fields, vals, acc, where):
    for (key, skip, d, fs), fv in zip(fields, vals):
        classes(fs, fv, acc, where)


# --------------------------------------------------------------------------------------
# generators
# --------------------------------------------------------------------------------------
STRINGS = ["", "a", "QUIC", "closed", "system", "Unknow", "no_error", "time", "name", "data", "path", "group_id",
           "deepseek（已深度思考）", "\U0001F980 crab", "quote\" back\\slash \n tab\t", "x" * 300, "é" * 90, "0RTT", "crypto_error_0x1ff"]


def rand_int(rng, lo, hi):
    r = rng.random()
    if r < 0.3:
        return rng.choice([lo, hi, min(hi, lo + 1), max(lo, hi - 1)])
    if r < 0.5:
        b = rng.choice([7, 8, 15, 16, 31, 32, 53, 62, 63, 64])
        return max(lo, min(hi, (1 << b) + rng.choice([-1, 0, 1])))
    if r < 0.8:
        return rng.randint(lo, min(hi, lo + 1000))
    return rng.randint(lo, hi)


def rand_str(rng):
    r = rng.random()
    if r < 0.45:
        return rng.choice(STRINGS)
    if r < 0.9:
        return "".join(rng.choice("abcdefghijklmnopqrstuvwxyz_0123456789:-. ") for _ in range(rng.randint(1, 24)))
    return "".join(chr(rng.choice([rng.randint(32, 126), rng.randint(0xa0, 0x7ff), rng.randint(0x4e00, 0x4eff), rng.randint(0x1f600, 0x1f640)]))
                   for _ in range(rng.randint(1, 60)))


def rand_float_bits(rng):
    r = rng.random()
    if r < 0.2:
        f = rng.choice([0.0, 1.0, -1.0, 0.5, 1e-3, 25.0, 3.4028234663852886e38, 1.401298464324817e-45])
    elif r < 0.6:
        f = round(rng.uniform(0, 1000), 3)
    else:
        f = rng.uniform(-1e6, 1e6)
    f32 = struct.unpack("<f", struct.pack("<f", f))[0]          # f32-representable, finite
    return struct.unpack("<Q", struct.pack("<d", f32))[0]


def rand_json(rng, depth=0):
    r = rng.random()
    if depth >= 2:
        r *= 0.7
    if r < 0.1:
        return ("null",)
    if r < 0.2:
        return ("bool", rng.random() < 0.5)
    if r < 0.4:
        return ("int", rng.choice([0, 1, -1, 255, 2**63 - 1, -2**63, 2**64 - 1, rng.randint(-1000, 1000)]))
    if r < 0.5:
        return ("float", rand_float_bits(rng))
    if r < 0.7:
        return ("str", rand_str(rng))
    if r < 0.85:
        return ("arr", [rand_json(rng, depth + 1) for _ in range(rng.randint(0, 3))])
    keys = set(rand_str(rng) for _ in range(rng.randint(0, 3)))
    return ("obj", [(key, rand_json(rng, depth + 1)) for key in sorted(keys)])


def rand_entries(rng, avoid, adversarial=False):
    n = rng.choice([0, 0, 0, 1, 2, 4])
    keys = set()
    for _ in range(n):
        key = rand_str(rng)
        if key in avoid and not adversarial:
            key = "x_" + key
        keys.add(key)
    if adversarial and avoid and rng.random() < 0.5:
        keys.add(rng.choice(sorted(avoid)))
    out = []
    for key in sorted(keys):
        j = rand_json(rng, 1)
        if key in avoid and j[0] == "int":
            # a colliding key may land on a float field: serde accepts an integer there, the float-free model cannot express it
            j = ("str", str(j[1]))
        out.append((key, j))
    return out


class Gen:
    """random values of a schema; `adv` allows values of the known defect classes (labelled by classes()).
    build=True: field values handed to the builders (a validated type gets ANY field values: what the builder makes of them
    must parse back); build=False: values as they exist after parsing (validators hold)"""

    def __init__(self, rng, adv=0.0, build=False, sweep=None):
        self.rng, self.adv, self.build, self.sweep = rng, adv, build, sweep
        self.hints = TR().hints

    def value(self, s, where=None, depth=0):
        rng = self.rng
        t = s[0]
        if t == "named":
            return self.value(s[2], s[1], depth)
        if t == "refine":
            v = self.value(s[2], where, depth)
            if self.build:
                if s[1] in (0, 1) and rng.random() < 0.4:
                    # the combination the validator refuses, asked of the builder: monotonic clock, epoch given or defaulted
                    epoch = rng.choice([("VEnum", 1, ("VStr", "1970-01-01T00:00:00.000Z")), ("VEnum", 1, ("VStr", rand_str(rng))), ("VEnum", 0, UNIT)])
                    v = ("VStruct", [("VEnum", 1, UNIT), epoch] + list(v[1][2:]), v[2], v[3])
                return v
            for _ in range(20):
                if refine_ok(s[1], v):
                    return v
                v = self.value(s[2], where, depth)
            return py_build(("refine", 1, s[2]), v)
        if t == "int":
            return ("VInt", rand_int(rng, s[1], s[2]))
        if t == "float":
            return ("VFloat", rand_float_bits(rng))
        if t == "bool":
            return ("VBool", rng.random() < 0.5)
        if t == "str":
            return ("VStr", rand_str(rng))
        if t == "hex":
            hi = s[2] if s[2] is not None else s[1] + rng.choice([0, 1, 8, 40])
            return ("VBytes", [rng.randint(0, 255) for _ in range(rng.randint(s[1], hi))])
        if t == "hexsuffix":
            return ("VInt", rng.choice([0, 1, 15, 16, 255, rng.randint(0, 255)]))
        if t == "opt":
            if rng.random() < (0.5 if depth < 3 else 0.75):
                return ("VNone",)
            return ("VSome", self.value(s[1], where, depth + 1))
        if t == "seq":
            n = rng.choice([0, 0, 1, 1, 2, 3]) if depth < 3 else rng.choice([0, 0, 1])
            return ("VSeq", [self.value(s[1], where, depth + 1) for _ in range(n)])
        if t == "arr":
            return ("VSeq", [self.value(s[2], where, depth + 1) for _ in range(s[1])])
        if t == "any":
            return ("VMap", rand_entries(rng, set()))
        if t == "struct":
            hints = self.hints.get(where, {}) if self.build else {}
            regs = [self.field(f, hints, where, depth) for f in s[1]]
            flats = [self.value(fs, where, depth + 1) for fs in s[2]]
            extra = rand_entries(rng, set(static_keys(s)), rng.random() < self.adv * 0.3) if s[3] else []
            return ("VStruct", regs, flats, extra)
        if t == "enum":
            n = len(s[2])
            for _ in range(30):
                i = rng.randrange(n)
                if self.sweep is not None and self.sweep[0] == where:
                    i = self.sweep[1] % n
                name, untag, shape = s[2][i]
                if shape[0] == "unit":
                    p = UNIT
                elif shape[0] == "new":
                    p = self.value(shape[1], where, depth + 1)
                else:
                    p = ("VStruct", [self.field(f, {}, where, depth) for f in shape[1]], [], [])
                v = ("VEnum", i, p)
                if self.sweep is not None and self.sweep[0] == where:
                    return v
                if rng.random() < self.adv or "F51" not in classes(s, v, None, where):
                    return v
            return v
        raise ValueError(t)

    def field(self, f, hints, where, depth):
        key, skip, d, fs = f
        h = hints.get(key)
        if h == "none":
            return ("VNone",)
        v = self.value(fs, where, depth + 1)
        if h == "some" and v[0] == "VNone":
            v = ("VSome", self.value(fs[1], where, depth + 1))
        if skip == "empty" and self.rng.random() < 0.3:
            # the skipped value itself (F50, repaired: every such field has it as its serde default)
            v = ("VMap", []) if v[0] == "VMap" else ("VSeq", [])
        return v


def mutate_json(rng, j):
    """one malformed-ish edit; never turns an object into an array or a float into an integer (outside the model)"""
    r = rng.random()
    if j[0] == "obj" and j[1]:
        i = rng.randrange(len(j[1]))
        key, v = j[1][i]
        if r < 0.3:
            return ("obj", j[1][:i] + j[1][i + 1:])
        if r < 0.45:
            return ("obj", j[1] + [("zz_unknown_" + str(rng.randint(0, 9)), rand_json(rng, 1))])
        if r < 0.55:
            return ("obj", j[1][:i] + [(key, ("null",))] + j[1][i + 1:])
        return ("obj", j[1][:i] + [(key, mutate_json(rng, v))] + j[1][i + 1:])
    if j[0] == "arr" and j[1] and r < 0.7:
        i = rng.randrange(len(j[1]))
        return ("arr", j[1][:i] + [mutate_json(rng, j[1][i])] + j[1][i + 1:])
    if j[0] == "int":
        return rng.choice([("int", -1), ("int", 256), ("int", 65536), ("int", 2**32), ("int", 2**64 - 1), ("str", "7"), ("bool", True), ("null",)])
    if j[0] == "str":
        return rng.choice([("str", j[1] + "x"), ("str", j[1].upper()), ("str", ""), ("int", 3), ("null",), ("bool", False), ("str", rand_str(rng))])
    if j[0] == "float":
        return rng.choice([("str", "1.0"), ("null",), ("bool", True)])
    if j[0] == "bool":
        return rng.choice([("int", 1), ("str", "true"), ("null",)])
    if j[0] == "null":
        return rng.choice([("int", 0), ("str", ""), ("bool", False)])
    return ("null",)


def outside_model(s, j):
    """the JSON puts an integer where a float field is expected (serde accepts it, the float-free model cannot express it)"""
    s = strip(s)
    t = s[0]
    if t == "float":
        return j[0] == "int"
    if t == "opt":
        return outside_model(s[1], j)
    if t in ("seq", "arr"):
        return j[0] == "arr" and any(outside_model(s[-1], x) for x in j[1])
    if t == "struct" and j[0] == "obj":
        d = dict(j[1])
        return any(key in d and outside_model(fs, d[key]) for key, _, _, fs in s[1]) or any(outside_model(fl, j) for fl in s[2])
    if t == "enum":
        tg = s[1]
        d = dict(j[1]) if j[0] == "obj" else {}
        for name, untag, shape in s[2]:
            if shape[0] == "unit":
                continue
            if untag or tg[0] == "untagged":
                pj = j
            elif tg[0] == "adj":
                pj = d.get(tg[2])
            elif tg[0] == "int":
                pj = j
            else:
                pj = d.get(name)
            if pj is None:
                continue
            if shape[0] == "new" and outside_model(shape[1], pj):
                return True
            if shape[0] == "struct" and outside_model(("struct", shape[1], [], False), pj):
                return True
    return False


def op_build(path, v):
    return (1, enc_str(path) + enc_value(v))


def op_de(path, j):
    return (0, enc_str(path) + enc_json(j))


def gen_case(rng, name, n=8, adv=0.0):
    tr = TR()
    ops, meta = [], []
    for _ in range(n):
        r = rng.random()
        if r < 0.5:
            path = rng.choice(tr.buildable)
            if rng.random() < 0.35:
                path = rng.choice(["Event", "Event", "Trace", "QlogFileSeq", "CommonFields", "quic::transport::PacketSent", "quic::QuicFrame"])
            v = Gen(rng, adv, build=True).value(tr.schemas[path])
            ops.append(op_build(path, v))
            meta.append("B")
        else:
            path = rng.choice(tr.order)
            v = Gen(rng, 0.0).value(tr.schemas[path])
            j = py_ser(tr.schemas[path], v)
            if r < 0.8:
                ops.append(op_de(path, j))
                meta.append("V")
            else:
                j0 = j
                for _ in range(6):
                    j = j0
                    for _ in range(rng.randint(1, 2)):
                        j = mutate_json(rng, j)
                    if not outside_model(tr.schemas[path], j):
                        break
                else:
                    j = j0
                ops.append(op_de(path, j))
                meta.append("M")
    return Case(name, ops, meta={"m": meta})


def gen_sweep(rng):
    """every variant of every enum once through DE, and through BUILD where the type is buildable"""
    tr = TR()
    cases = []
    k_ = 0
    for path in tr.order:
        s = strip(tr.schemas[path])
        if s[0] != "enum":
            continue
        ops, meta = [], []
        for i in range(len(s[2])):
            v = Gen(rng, 1.0, build=True, sweep=(path, i)).value(tr.schemas[path])
            if path in tr.buildable:
                ops.append(op_build(path, v))
                meta.append("B")
            if not classes(tr.schemas[path], v):
                ops.append(op_de(path, py_ser(tr.schemas[path], py_build(tr.schemas[path], v))))
                meta.append("V")
        for lo in range(0, len(ops), 10):
            cases.append(Case("sweep%d" % k_, ops[lo:lo + 10], meta={"m": meta[lo:lo + 10]}))
            k_ += 1
    return cases


def gen(rng, tier):
    n = 700 if tier == "quick" else 20000
    cases = gen_sweep(rng)
    cases += [gen_case(rng, "c%d" % i) for i in range(n)]
    cases += [gen_case(rng, "a%d" % i, adv=0.5) for i in range(n // 10)]
    return cases


# --------------------------------------------------------------------------------------
# oracle: the property, stated on the implementation's observations
# --------------------------------------------------------------------------------------
MANDATORY = {"Event": ["time", "name", "data"], "legacy::Event": ["time", "name", "data"]}


def decode_op(tag, args):
    rd = Reader(flat_args(args))
    path = rd.string()
    body = rd.json() if tag == 0 else rd.value()
    return path, body


def check_op(k_, tag, args, line, kind):
    """-> (message, classes) or None"""
    tr = TR()
    path, body = decode_op(tag, args)
    if path not in tr.schemas:
        return None
    s = tr.schemas[path]
    if line.startswith("!"):
        return ("abnormal: op %d (%s) -> %s" % (k_, path, line), set())
    o = [int(x) for x in line.split()]
    if tag == 1:
        cls = classes(s, body)
        if o[0] != 1:
            return ("build: op %d could not build/serialise a %s: %s" % (k_, path, o[:3]), cls)
        rd = Reader(o[1:])
        j = rd.json()
        flag = rd.next()
        if path in MANDATORY:
            keys = [key for key, _ in j[1]] if j[0] == "obj" else []
            for m in MANDATORY[path]:
                if m not in keys:
                    return ("mandatory: op %d serialised %s lacks the mandatory field `%s`" % (k_, path, m), cls)
            gid = body[1][4 if path == "Event" else 2]
            if (gid[0] == "VSome") != ("group_id" in keys) and "F53" not in cls:
                return ("mandatory: op %d %s group_id set=%s but present in JSON=%s" % (k_, path, gid[0] == "VSome", "group_id" in keys), cls)
        if flag != 1:
            return ("parseback: op %d a built %s does not parse back to an equal value (flag %d: %s)" %
                    (k_, path, flag, "different value" if flag == 0 else "rejected"), cls)
        if j != canon(py_ser(s, py_build(s, body))):
            return ("reference: op %d JSON of the built %s differs from the reference serialisation" % (k_, path), cls)
        return None
    # DE
    if o[0] == 0:
        if kind == "V":
            # a reference serialisation of a conforming value must be accepted
            return ("rejected: op %d the reference JSON of a %s value is rejected by from_value" % (k_, path), set())
        return None
    if o[0] != 1:
        return ("de: op %d unexpected observation %s" % (k_, o[:3]), set())
    rd = Reader(o[1:])
    j = rd.json()
    flag = rd.next()
    if path in MANDATORY:
        keys = [key for key, _ in j[1]] if j[0] == "obj" else []
        for m in MANDATORY[path]:
            if m not in keys:
                return ("mandatory: op %d re-serialised %s lacks the mandatory field `%s`" % (k_, path, m), set())
    if flag != 1:
        return ("parseback: op %d an accepted %s re-serialises to JSON that does not parse back equal (flag %d)" % (k_, path, flag), set())
    if kind == "V" and j != canon(body):
        return ("reserialise: op %d parse + serialise changed the reference JSON of a %s" % (k_, path), set())
    return None


def oracle(case, obs):
    kinds = case.meta.get("m")
    if not kinds:
        # corpus / replay files carry no per-op labels; `CASE <name> 1` marks a case all of whose DE ops are reference JSON of
        # conforming values (regression cases of repaired findings): they must be accepted and re-serialise to themselves
        strict = bool(case.cfg) and str(case.cfg[0]) == "1"
        kinds = ["V" if strict and tag == 0 else None for tag, _ in case.ops]
    if len(obs) != len(case.ops):
        return "length: %d observations for %d ops (%s)" % (len(obs), len(case.ops), obs[-1] if obs else "")
    known = None
    for k_, ((tag, args), line) in enumerate(zip(case.ops, obs)):
        try:
            r = check_op(k_, tag, args, line, kinds[k_] if k_ < len(kinds) else None)
        except (IndexError, ValueError, TypeError, KeyError) as e:
            if k_ >= len(kinds) or (kinds[k_] is None and not case.cfg):
                continue            # a corpus op that no longer fits the regenerated schema
            r = ("garbled: op %d observation cannot be decoded (%s)" % (k_, e), set())
        if r is None:
            continue
        msg, cls = r
        if not cls:
            return msg
        if known is None:
            known = "known[%s] %s" % (",".join(sorted(cls)), msg)
    return known


def classify(case, msg, obs):
    if msg and msg.startswith("known["):
        return msg[6:msg.index("]")].split(",")[0]
    return None


def classify_diff(case, io, mo):
    return None


def nontrivial(case):
    tr = TR()
    for tag, args in case.ops:
        try:
            path, body = decode_op(tag, args)
        except (IndexError, ValueError):
            continue
        if path not in tr.schemas:
            continue
        st = {"some": 0, "none": 0, "bound": 0, "var": 0}

        def walk(x):
            if isinstance(x, tuple):
                if x and x[0] in ("VSome",):
                    st["some"] += 1
                elif x and x[0] == "VNone":
                    st["none"] += 1
                elif x and x[0] == "VEnum" and x[1] > 0:
                    st["var"] += 1
                elif x and x[0] in ("VInt", "int") and isinstance(x[1], int) and x[1] in (255, 65535, 2**32 - 1, 2**64 - 1, 2**63, 2**62):
                    st["bound"] += 1
                for y in x[1:]:
                    walk(y)
            elif isinstance(x, list):
                for y in x:
                    walk(y)
        walk(body)
        if tag == 1 and st["some"] and st["none"] and (st["bound"] or st["var"]):
            return True
        if tag == 0 and body[0] == "obj" and len(body[1]) >= 2 and st["bound"]:
            return True
    return False


def hist(case):
    lab = []
    kinds = case.meta.get("m") or []
    tr = TR()
    for k_, (tag, args) in enumerate(case.ops):
        try:
            path, body = decode_op(tag, args)
        except (IndexError, ValueError):
            lab.append("op:undecodable")
            continue
        kind = kinds[k_] if k_ < len(kinds) else "?"
        lab.append("op:%s" % {"B": "build", "V": "de-valid", "M": "de-mutated"}.get(kind, "corpus"))
        lab.append("mod:%s" % (path.rsplit("::", 1)[0] if "::" in path else "root"))
        if tag == 1 and path in tr.schemas:
            try:
                for c in classes(tr.schemas[path], body):
                    lab.append("class:" + c)
                lab.extend(sorted(features(tr.schemas[path], body)))
            except (IndexError, ValueError, TypeError, KeyError):
                lab.append("class:ill-typed")
            if path == "Event":
                lab.append("event:%s" % strip(tr.schemas["EventData"])[2][body[2][0][1]][0])
        n = len(flat_args(args))
        lab.append("size:%s" % ("<50" if n < 50 else "<400" if n < 400 else "<4000" if n < 4000 else "big"))
    return lab


def mutate(rng, case, j):
    tr = TR()
    ops, meta = [], []
    for tag, args in case.ops:
        try:
            path, body = decode_op(tag, args)
        except (IndexError, ValueError):
            continue
        if path not in tr.schemas:
            continue
        if tag == 1 and path in tr.buildable:
            ops.append(op_build(path, Gen(rng, 0.3, build=True).value(tr.schemas[path])))
            meta.append("B")
        else:
            jj = py_ser(tr.schemas[path], Gen(rng, 0.0).value(tr.schemas[path]))
            ops.append(op_de(path, jj))
            meta.append("V")
    return Case("m%d" % j, ops, meta={"m": meta})



# ======================================================================================
# stream `qlog`: the telemetry layer driven the way the transport drives it (receive path of read_plain_packet, loss path of
# may_loss) under every exporter configuration and receiver lifetime
# ======================================================================================
import pycodec as pc

Q_RULE = ("cases = histories of one thread-local span: EXPORTER(kind, mask, group_id) installs no exporter / the stock NoopLogger / a channel "
          "exporter (the crate's impl for UnboundedSender<Event>) / a filtering exporter (per-scheme mask, raw data on/off) / the stock "
          "LegacySeqLogger on a sink that can start failing; GONE drops the receiving half (or makes the sink fail); RECV(ptype, pn, payload) "
          "runs the receive path on wire bytes (FrameReader -> QuicFramesCollector::extend -> dispatch -> event!(PacketReceived)), "
          "LOST the loss path (QuicFramesCollector::<PacketLost>); TICK runs the logger's writer task. The same packet workload is replayed "
          "under several exporter configurations, before and after the receiver is gone. Payloads: 0-6 well-formed frames of every type "
          "(all varint fields at the 1/2/4/8-byte boundaries, 2^32 +- 1, 2^62 - 1), a per-type sweep, malformed tails, one payload large "
          "enough to overflow the log writer's buffer. Non-trivial: two different exporter kinds, one of them capturing, and a packet "
          "with two frames or a field >= 2^32")
Q_KINDS = {0: "none", 1: "noop", 2: "channel", 3: "filtered", 4: "legacy-file"}


Q_VALUES = {}     # payload bytes -> field values of its frames (generator-side knowledge, used by the oracle's value clauses)


def q_expect(code, f):
    """what qlog has to show of a frame, stated from RFC 9000 / the qlog schema: (tag, {field index: value})"""
    m32 = 2 ** 32
    if code in (pc.ACK, pc.ACK_ECN):
        largest, first, n = f[0], f[2], f[3]
        rs, small = [(largest - first, largest)], largest - first
        for i in range(n):
            hi = small - f[4 + 2 * i] - 2
            small = hi - f[5 + 2 * i]
            rs.append((small, hi))
        exp = {0: len(rs)}
        for i, (lo, hi) in enumerate(rs):
            exp[1 + 2 * i], exp[2 + 2 * i] = lo, hi
        return 2, exp
    if code == pc.RESET_STREAM:
        return 3, {1: f[1] % m32, 2: f[2]}
    if code == pc.STOP_SENDING:
        return 4, {1: f[1] % m32}
    if code == pc.CRYPTO:
        return 5, {0: f[0], 2: f[1], 4: f[1]}
    if pc.STREAM <= code <= pc.STREAM + 7:
        return 7, {0: f[0], 1: f[1], 2: f[4], 3: f[3], 5: f[4]}
    if code in (pc.MAX_DATA, pc.DATA_BLOCKED):
        return (8 if code == pc.MAX_DATA else 11), {0: f[0]}
    if code in (pc.MAX_STREAM_DATA, pc.STREAM_DATA_BLOCKED):
        return (9 if code == pc.MAX_STREAM_DATA else 12), {1: f[1]}
    if code in (pc.MAX_STREAMS_BI, pc.MAX_STREAMS_UNI, pc.STREAMS_BLOCKED_BI, pc.STREAMS_BLOCKED_UNI):
        return (10 if code in (pc.MAX_STREAMS_BI, pc.MAX_STREAMS_UNI) else 13), {0: 1 if code in (pc.MAX_STREAMS_UNI, pc.STREAMS_BLOCKED_UNI) else 0, 1: f[0]}
    if code == pc.NEW_CONNECTION_ID:
        return 14, {0: f[0] % m32, 1: f[1] % m32, 2: f[2]}
    if code == pc.RETIRE_CONNECTION_ID:
        return 15, {0: f[0] % m32}
    if code == pc.CLOSE_APP:
        return 18, {0: 1, 1: f[0] % m32}
    if code == pc.CLOSE_QUIC:
        return 18, {0: 0, 2: f[1]}
    if code in (pc.DATAGRAM, pc.DATAGRAM_LEN):
        return 21, {0: f[0], 2: f[0]}
    return None


def q_payload(rng, p, n, small=True, codes=None):
    frames, wire, vals = [], b"", []
    for i in range(n):
        for _ in range(20):
            code = rng.choice(codes) if codes else rng.choice(pc.ALL_CODES)
            if p in pc.allowed_ptypes(code):
                break
        else:
            code = pc.PING
        code, f = pc.rand_frame(rng, code, small=small)
        if pc.STREAM <= code <= pc.STREAM + 7:
            code = pc.STREAM | (4 if f[1] != 0 else 0) | (2 if f[2] else 0) | (1 if f[3] else 0)
        no_len = (pc.STREAM <= code <= pc.STREAM + 7 and not (code & 2)) or code == pc.DATAGRAM
        frames.append(code)
        vals.append(list(f))
        wire += pc.encode_frame(code, f)
        if no_len:
            break
    Q_VALUES[wire] = vals
    return frames, wire


def q_packet(rng, codes=None):
    """-> (op, meta)"""
    p = rng.choice([0, 1, 2, 3, 3, 3])
    r = rng.random()
    n = 0 if r < 0.04 else rng.choice([1, 1, 2, 2, 3, 4, 6])
    frames, wire = q_payload(rng, p, n, small=rng.random() < 0.8, codes=codes)
    bad = False
    if rng.random() < 0.12 and wire:
        bad = True
        wire = rng.choice([wire[:-1], wire + bytes([0x1f]), wire + bytes([0x04, 0x05]), wire[:max(1, len(wire) // 2)],
                           wire + bytes([0x02, 5, 0, 0, 9])])     # truncated / unknown type / incomplete / ACK below packet number 0
    tag = 2 if rng.random() < 0.7 else 3
    return (tag, [p, rng.choice([0, 1, 7, 2 ** 32, 2 ** 62 - 1]), wire]), ("P", None if bad else frames)


def q_exporter(rng, kind=None):
    kind = rng.choice([0, 1, 2, 2, 3, 3, 3, 4]) if kind is None else kind
    mask = rng.randrange(8) if kind == 3 else 0
    return (0, [kind, mask, rng.randrange(2)]), ("X", kind)


def q_case(rng, name):
    ops, meta = [], []
    work = [q_packet(rng) for _ in range(rng.choice([1, 2, 3]))]
    kinds = rng.sample([0, 1, 2, 3, 3, 4], rng.choice([2, 3, 4]))
    for kind in kinds:
        x, m = q_exporter(rng, kind)
        ops.append(x), meta.append(m)
        for w, m in work:
            ops.append(w), meta.append(m)
        if kind == 4:
            ops.append((5, [])), meta.append(("T",))
        if rng.random() < 0.5:
            # the capturing side goes away while the span lives on: late events
            ops.append((1, [])), meta.append(("G",))
            for w, m in work:
                ops.append(w), meta.append(m)
            if kind == 4:
                ops.append((5, [])), meta.append(("T",))
                w, m = q_packet(rng)
                ops.append(w), meta.append(m)
    return Case(name, ops, meta={"m": meta})


Q_WIDE = [2 ** 32 - 1, 2 ** 32, 2 ** 32 + 1, 2 ** 62 - 1]
# positions (in pycodec's field list) of the varint fields that may take any 62-bit value independently of the others
Q_WIDE_FIELDS = {pc.ACK: [0, 1], pc.ACK_ECN: [0, 1, -3, -2, -1], pc.RESET_STREAM: [0, 1, 2], pc.STOP_SENDING: [0, 1], pc.CRYPTO: [0],
                 pc.STREAM: [0], pc.STREAM | 4: [0, 1], pc.MAX_DATA: [0], pc.MAX_STREAM_DATA: [0, 1], pc.DATA_BLOCKED: [0],
                 pc.STREAM_DATA_BLOCKED: [0, 1], pc.STREAMS_BLOCKED_BI: [0], pc.STREAMS_BLOCKED_UNI: [0], pc.NEW_CONNECTION_ID: [0],
                 pc.RETIRE_CONNECTION_ID: [0], pc.CLOSE_APP: [0], pc.REMOVE_ADDRESS: [0]}


def q_wide(rng, code):
    """the frames of this type with one varint field at each value around 2^32 and at 2^62 - 1"""
    out = []
    for idx in Q_WIDE_FIELDS.get(code, []):
        for w in Q_WIDE:
            c, f = pc.rand_frame(rng, code, small=True)
            f = list(f)
            if code in (pc.CRYPTO, pc.STREAM | 4) and idx == (0 if code == pc.CRYPTO else 1):
                n = f[1] if code == pc.CRYPTO else f[4]
                w = min(w, pc.VARINT_MAX - n)
            f[idx] = w
            if code == pc.NEW_CONNECTION_ID:
                f[1] = min(f[1], f[0])                     # retire_prior_to <= sequence number
            if code in (pc.ACK, pc.ACK_ECN) and idx == 0:
                f = [w, f[1], min(f[2], w), 0] + f[4 + 2 * f[3]:]      # one range below the new largest
            if pc.STREAM <= c <= pc.STREAM + 7:
                c = pc.STREAM | (4 if f[1] != 0 else 0) | (2 if f[2] else 0) | (1 if f[3] else 0)
            out.append((c, f))
    return out


def q_sweep(rng):
    """every frame type: three random values and every independent varint field at 2^32 - 1, 2^32, 2^32 + 1 and 2^62 - 1, through a
    channel exporter, a raw-data filtering exporter and no exporter, on the receive and on the loss path"""
    cases = []
    for i, code in enumerate(pc.ALL_CODES):
        work = []
        frames = [pc.rand_frame(rng, code, small=True) for _ in range(3)] + q_wide(rng, code)
        for c, f in frames:
            if pc.STREAM <= c <= pc.STREAM + 7:
                c = pc.STREAM | (4 if f[1] != 0 else 0) | (2 if f[2] else 0) | (1 if f[3] else 0)
            p = rng.choice(pc.allowed_ptypes(c))
            Q_VALUES[pc.encode_frame(c, f)] = [list(f)]
            work.append(((rng.choice([2, 3]), [p, 1, pc.encode_frame(c, f)]), ("P", [c])))
        for lo in range(0, len(work), 8):
            ops, meta = [], []
            for x in ((0, [2, 0, 1]), (0, [3, 7, 0]), (0, [0, 0, 0])):
                ops.append(x), meta.append(("X", x[1][0]))
                for w, m in work[lo:lo + 8]:
                    ops.append(w), meta.append(m)
            cases.append(Case("qsweep%d_%d" % (i, lo // 8), ops, meta={"m": meta}))
    return cases


def q_late(rng, name, kind):
    """directed: the receiver disappears before the last clone of the span emits its last event"""
    ops, meta = [], []
    x, m = q_exporter(rng, kind)
    if kind == 3:
        x = (0, [3, x[1][1] | 3, x[1][2]])
    ops.append(x), meta.append(m)
    w, m = q_packet(rng)
    ops.append(w), meta.append(m)
    ops.append((1, [])), meta.append(("G",))
    if kind == 4:
        # the writer task only notices the dead sink when its 8 KiB buffer spills: one large packet, then let it run
        big = pc.encode_frame(pc.MAX_DATA, [5]) * 600
        Q_VALUES[big] = [[5]] * 600
        ops.append((2, [3, 9, big])), meta.append(("P", [pc.MAX_DATA] * 600))
        ops.append((5, [])), meta.append(("T",))
    for _ in range(2):
        w, m = q_packet(rng)
        ops.append(w), meta.append(m)
    return Case(name, ops, meta={"m": meta})


def q_gen(rng, tier):
    n = 250 if tier == "quick" else 6000
    cases = q_sweep(rng)
    cases += [q_late(rng, "qlate%d_%d" % (kind, i), kind) for kind in (2, 3, 4) for i in range(4 if tier == "quick" else 40)]
    cases += [q_case(rng, "q%d" % i) for i in range(n)]
    return cases


def q_split(line):
    o = [int(x) for x in line.split()]
    if -7 not in o:
        return None, None
    i = o.index(-7)
    return o[:i], o[i + 1:]


def q_app_frames(app):
    """-> (list of (consumed, type code), error code or None) or None when the dispatcher's record is garbled"""
    out, i = [], 0
    while i < len(app):
        if app[i] == 0 and i + 2 < len(app):
            out.append((app[i + 1], app[i + 2]))
            i += 3
        elif app[i] == 1 and i + 2 == len(app):
            return out, app[i + 1]
        else:
            return None
    return out, None


Q_NFIELDS = {0: 2, 1: 2, 3: 3, 4: 2, 5: 6, 6: 3, 7: 7, 8: 1, 9: 2, 10: 2, 11: 1, 12: 2, 13: 2, 14: 3, 15: 1, 16: 1, 17: 1, 18: 3, 19: 0,
             20: 1, 21: 4}


def q_logged(log):
    """log = n (tag fields..)* -> list of (tag, fields) or None"""
    n, i, out = log[0], 1, []
    for _ in range(n):
        if i >= len(log):
            return None
        tag = log[i]
        if tag == 2:
            if i + 1 >= len(log):
                return None
            k = 1 + 2 * log[i + 1] + 4
        elif tag in Q_NFIELDS:
            k = Q_NFIELDS[tag]
        else:
            return None
        out.append((tag, log[i + 1:i + 1 + k]))
        i += 1 + k
    return out if i == len(log) else None


def q_oracle(case, obs):
    """C20 on the implementation's observations, no model involved:
    (1) logging never panics: no operation ends abnormally, whatever the exporter and whether or not anybody still listens;
    (2) purely observational: what the dispatcher is handed for a payload does not depend on the exporter configuration
        (and is every frame of a well-formed payload);
    (3) well-formed: exactly the events that pass the exporter's filter reach a live receiver, one per successfully read packet, carrying
        time / name / data, group_id exactly when the span has one, parsing back to an equal event, every narrowed field in range;
        nothing reaches anybody otherwise"""
    kinds = case.meta.get("m") or []
    if len(obs) != len(case.ops):
        last = obs[-1] if obs else ""
        if last.startswith("!"):
            k_ = len(obs) - 1
            st = q_state(case.ops[:k_])
            return "abnormal: op %d (%s under exporter %s, receiver %s) -> %s" % (
                k_, {2: "RECV", 3: "LOST", 0: "EXPORTER", 1: "GONE", 5: "TICK"}.get(case.ops[k_][0], "?") if k_ < len(case.ops) else "?",
                Q_KINDS.get(st["kind"], st["kind"]), "alive" if st["alive"] else "gone", last)
        return "length: %d observations for %d ops (%s)" % (len(obs), len(case.ops), last)
    st = {"kind": 0, "mask": 0, "gid": 0, "alive": False}
    first = {}
    for k_, ((tag, args), line) in enumerate(zip(case.ops, obs)):
        if line.startswith("!"):
            return "abnormal: op %d under exporter %s, receiver %s -> %s" % (k_, Q_KINDS.get(st["kind"], st["kind"]),
                                                                              "alive" if st["alive"] else "gone", line)
        a = flat_args(args)
        if tag == 0 and len(a) == 3:
            st = {"kind": min(a[0], 4), "mask": a[1], "gid": 1 if a[2] else 0, "alive": True}
            continue
        if tag == 1:
            st["alive"] = False
            continue
        if tag not in (2, 3) or len(a) < 2:
            continue
        app, log = q_split(line)
        if app is None:
            return "garbled: op %d observation %s" % (k_, line[:60])
        fr = q_app_frames(app)
        if fr is None:
            return "garbled: op %d dispatcher record %s" % (k_, app[:12])
        frames, err = fr
        wire = tuple(a[2:])
        key = (a[0], wire)
        if key in first and first[key][1] != app:
            return ("interference: op %d the dispatcher saw %s for a payload for which it saw %s at op %d under another exporter configuration"
                    % (k_, app[:12], first[key][1][:12], first[key][0]))
        first.setdefault(key, (k_, app))
        m = kinds[k_] if k_ < len(kinds) else None
        if m and m[0] == "P" and m[1] is not None:
            if err is not None or [t for _, t in frames] != list(m[1]) or sum(c for c, _ in frames) != len(wire):
                return "dispatch: op %d a well-formed payload of frames %s was dispatched as %s" % (k_, m[1][:8], app[:24])
        passes = st["kind"] in (2, 4) or (st["kind"] == 3 and (st["mask"] >> (tag - 2)) & 1)
        visible = passes and st["kind"] in (2, 3) and st["alive"] and err is None
        if not visible:
            if log != [0]:
                return "leak: op %d an event reached the receiver although %s" % (
                    k_, "the payload is malformed" if err is not None else "the exporter filters it / nobody listens")
            continue
        if not log or log[0] == 0:
            return "lost: op %d no %s event reached the live receiver of a %s exporter" % (k_, "packet_received" if tag == 2 else "packet_lost",
                                                                                             Q_KINDS[st["kind"]])
        if log[0] != 1:
            return "mandatory: op %d the event lacks time / name / data (or carries another name)" % k_
        if len(log) < 4:
            return "garbled: op %d log record %s" % (k_, log)
        if log[1] != st["gid"]:
            return "mandatory: op %d span group_id set=%d but present in the event=%d" % (k_, st["gid"], log[1])
        if log[2] != 1:
            return "parseback: op %d the emitted event does not parse back to an equal event (flag %d)" % (k_, log[2])
        lf = q_logged(log[3:])
        if lf is None:
            return "garbled: op %d logged frames %s" % (k_, log[3:15])
        if len(lf) > len(frames) or (frames and not lf):
            return "frames: op %d %d frames dispatched, %d logged" % (k_, len(frames), len(lf))
        for t, fs in lf:
            if any(x < -4 or x >= 2 ** 64 for x in fs):
                return "range: op %d logged frame %d has a field outside u64: %s" % (k_, t, fs)
            if t in (3, 4) and not 0 <= fs[1] < 2 ** 32:
                return "range: op %d logged error_code %d is not a uint32" % (k_, fs[1])
            if t in (14, 15) and not 0 <= fs[0] < 2 ** 32:
                return "range: op %d logged sequence_number %d is not a uint32" % (k_, fs[0])
        vals = Q_VALUES.get(bytes(wire)) if m and m[0] == "P" and m[1] is not None else None
        if vals is not None and len(vals) == len(lf) == len(m[1]) and not any(c in (pc.PADDING, pc.PING) for c in m[1][:-1]):
            # frame by frame (no Padding / Ping run in front of another frame): the values a reader of the log sees
            for i, (c, f) in enumerate(zip(m[1], vals)):
                exp = q_expect(c, f)
                if exp is None:
                    continue
                if lf[i][0] != exp[0]:
                    return "value: op %d frame %d (type 0x%x) is logged as frame kind %d" % (k_, i, c, lf[i][0])
                for idx, v in exp[1].items():
                    if idx >= len(lf[i][1]) or lf[i][1][idx] != v:
                        return "value: op %d frame %d (type 0x%x) field %d is logged as %s, the frame carries %d" % (
                            k_, i, c, idx, lf[i][1][idx] if idx < len(lf[i][1]) else None, v)
    return None


def q_state(ops):
    st = {"kind": 0, "alive": False}
    for tag, args in ops:
        a = flat_args(args)
        if tag == 0 and len(a) == 3:
            st = {"kind": min(a[0], 4), "alive": True}
        elif tag == 1:
            st["alive"] = False
    return st


def q_nontrivial(case):
    kinds, rich = set(), False
    for tag, args in case.ops:
        a = flat_args(args)
        if tag == 0 and a:
            kinds.add(a[0])
        if tag in (2, 3) and len(a) > 6:
            rich = True
    return len(kinds) >= 2 and bool(kinds & {2, 3, 4}) and rich


def q_hist(case):
    lab = []
    kinds = case.meta.get("m") or []
    st = {"kind": 0, "alive": False}
    for k_, (tag, args) in enumerate(case.ops):
        a = flat_args(args)
        if tag == 0 and len(a) == 3:
            st = {"kind": min(a[0], 4), "alive": True}
            lab.append("exporter:%s" % Q_KINDS.get(st["kind"], "?"))
            if st["kind"] == 3:
                lab.append("filter:recv=%d lost=%d raw=%d" % (a[1] & 1, (a[1] >> 1) & 1, (a[1] >> 2) & 1))
            lab.append("group_id:%d" % (1 if a[2] else 0))
        elif tag == 1:
            st["alive"] = False
            lab.append("op:receiver-gone")
        elif tag == 5:
            lab.append("op:tick")
        elif tag in (2, 3):
            lab.append("op:%s" % ("recv" if tag == 2 else "lost"))
            if st["kind"] in (2, 3, 4) and not st["alive"]:
                lab.append("late-event:%s" % Q_KINDS[st["kind"]])
            m = kinds[k_] if k_ < len(kinds) else None
            if m and m[0] == "P":
                if m[1] is None:
                    lab.append("payload:malformed")
                else:
                    lab.append("payload:%s frames" % (len(m[1]) if len(m[1]) < 4 else "4+" if len(m[1]) < 100 else "600"))
                    for c in set(m[1]):
                        lab.append("frame:0x%x" % (c if c < 0x08 or c > 0x0f else 0x08))
            n = len(a)
            lab.append("bytes:%s" % ("<8" if n < 8 else "<64" if n < 64 else "<600" if n < 600 else "big"))
            if any(x >= 0xc0 for x in a[2:]):
                lab.append("payload:8-byte varint")
    return lab


def q_mutate(rng, case, j):
    return q_case(rng, "qm%d" % j)


STREAMS = [{
    "name": "qevent", "pkg": "he", "bin": "impl_qevent",
    "gen": gen, "oracle": oracle, "nontrivial": nontrivial, "hist": hist, "mutate": mutate,
    "classify": classify,
    "profiles": ("debug",), "profiles_thorough": ("debug", "release"),
    "rule": RULE,
}, {
    "name": "qlog", "pkg": "he", "bin": "impl_qlog",
    "gen": q_gen, "oracle": q_oracle, "nontrivial": q_nontrivial, "hist": q_hist, "mutate": q_mutate,
    "profiles": ("debug",), "profiles_thorough": ("debug", "release"),
    "rule": Q_RULE,
}]
