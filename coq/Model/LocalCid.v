(* Model of qbase/src/cid/local_cid.rs (LocalCids).  Definitions only.

   cid_deque : IndexDeque<Option<(ConnectionId, ResetToken)>>  ->  offset [l_off] and the
   list [l_cells] (None = retired); `largest()` = l_off + len.  The ISSUED environment
   (GenUniqueCid + RetireCid, in the stack: QuicRouterRegistry) is a Section parameter:
   [gen] may fail (None: the random loop never found a vacant ID), [ret] retires an ID.
   Frames handed to SendFrame<NewConnectionIdFrame> are returned as [lframe]s.

   Not modelled: reset tokens; `VarInt::from_u64(..).unwrap()` / the push_back `expect` when the
   sequence number reaches 2^62 (F11, property C04).  `set_limit` carries
   `debug_assert!(self.active_cid_limit.is_none())`: calling it twice panics in debug builds, so
   the second call is the explicit outcome [LDouble] (no effect) and the harness never makes it. *)
From Coq Require Import List NArith ZArith Bool.
From GQ Require Export Lib.Base Model.Router.
Import ListNotations.
Local Open Scope N_scope.

Record lcids := mkL { l_off : N; l_cells : list (option cid); l_limit : option N }.
Definition l_largest (l : lcids) : N := l_off l + lenN (l_cells l).

(* NEW_CONNECTION_ID frame handed to the sender *)
Inductive lframe := LNew (seq rpt : N) (c : cid).

Inductive lres := LOk | LErrParam | LErrLimit | LDouble.

Fixpoint count_some {A} (l : list (option A)) : nat :=
  match l with
  | [] => O
  | Some _ :: r => S (count_some r)
  | None :: r => count_some r
  end.
Definition l_active (l : lcids) : N := N.of_nat (count_some (l_cells l)).

Fixpoint leading_none {A} (l : list (option A)) : nat :=
  match l with
  | None :: r => S (leading_none r)
  | _ => O
  end.

Fixpoint set_nth {A} (n : nat) (l : list A) (v : A) : list A :=
  match n, l with
  | _, [] => []
  | O, _ :: r => v :: r
  | S n', x :: r => x :: set_nth n' r v
  end.

(* IndexDeque::get *)
Definition l_get (l : lcids) (seq : N) : option (option cid) :=
  if seq <? l_off l then None else nth_error (l_cells l) (N.to_nat (seq - l_off l)).

Section Local.
  Variable E : Type.
  Variable gen : E -> option (E * cid).
  Variable ret : E -> cid -> E.

  (* issue_new_cid: seq = largest, retire_prior_to = offset *)
  Definition issue (e : E) (l : lcids) : option (E * lcids * lframe) :=
    match gen e with
    | None => None
    | Some (e', c) =>
        Some (e', mkL (l_off l) (l_cells l ++ [Some c]) (l_limit l), LNew (l_largest l) (l_off l) c)
    end.

  Fixpoint issue_n (n : nat) (e : E) (l : lcids) : option (E * lcids * list lframe) :=
    match n with
    | O => Some (e, l, [])
    | S n' =>
        match issue e l with
        | None => None
        | Some (e1, l1, f) =>
            match issue_n n' e1 l1 with
            | None => None
            | Some (e2, l2, fs) => Some (e2, l2, f :: fs)
            end
        end
    end.

  (* LocalCids::new(scid, issued): sequence 0 is the externally chosen scid, sequence 1 is issued *)
  Definition l_new (e : E) (scid : cid) : option (E * lcids * list lframe) :=
    match issue e (mkL 0 [Some scid] None) with
    | None => None
    | Some (e1, l1, f) => Some (e1, l1, [f])
    end.

  Definition l_set_limit (e : E) (l : lcids) (n : N) : option (E * lcids * list lframe * lres) :=
    match l_limit l with
    | Some _ => Some (e, l, [], LDouble)
    | None =>
        if n <? 2 then Some (e, l, [], LErrParam)
        else
          match issue_n (N.to_nat (n - l_largest l)) e l with
          | None => None
          | Some (e1, l1, fs) => Some (e1, mkL (l_off l1) (l_cells l1) (Some n), fs, LOk)
          end
    end.

  Definition l_recv_retire (e : E) (l : lcids) (seq : N) : option (E * lcids * list lframe * lres) :=
    if l_largest l <=? seq then Some (e, l, [], LErrLimit)
    else
      match l_get l seq with
      | Some (Some c) =>
          let cells1 := set_nth (N.to_nat (seq - l_off l)) (l_cells l) None in
          let n := leading_none cells1 in
          let l1 := mkL (l_off l + N.of_nat n) (skipn n cells1) (l_limit l) in
          match issue e l1 with
          | None => None
          | Some (e1, l2, f) => Some (ret e1 c, l2, [f], LOk)
          end
      | _ => Some (e, l, [], LOk)
      end.

  Fixpoint retire_all (e : E) (cells : list (option cid)) : E :=
    match cells with
    | [] => e
    | Some c :: r => retire_all (ret e c) r
    | None :: r => retire_all e r
    end.

  (* clear(): drain everything, retire every active ID (also run by Drop) *)
  Definition l_clear (e : E) (l : lcids) : E * lcids :=
    (retire_all e (l_cells l), mkL (l_largest l) [] (l_limit l)).
End Local.
