(* Proofs about Model/Sid.v: local allocation bound, remote acceptance bound (F14), implicit opens. *)
From Coq Require Import List NArith ZArith Bool Lia FinFun.
From GQ Require Import Model.Sid.
Import ListNotations.
Local Open Scope N_scope.
Arguments N.add : simpl never.
Arguments N.sub : simpl never.
Arguments N.mul : simpl never.
Arguments N.pow : simpl never.

Lemma pget_pset_same p d v : pget (pset p d v) d = v.
Proof. destruct d; reflexivity. Qed.
Lemma pget_pset_other p d d' v : d <> d' -> pget (pset p d v) d' = pget p d'.
Proof. destruct d, d'; intro H; try reflexivity; congruence. Qed.

(* ---------------------------------------------------------------- stream id arithmetic *)
Ltac Zify.zify_post_hook ::= Z.div_mod_to_equations.

Lemma sid_of_idx r d i : sid_idx (sid_of r d i) = i.
Proof. unfold sid_idx, sid_of. destruct r, d; cbn [role_bit dir_bit]; lia. Qed.


Lemma sid_arith i b c : b < 2 -> c < 2 ->
  (i * 4 + b * 2 + c) mod 2 = c /\ ((i * 4 + b * 2 + c) / 2) mod 2 = b.
Proof.
  intros Hb Hc.
  replace (i * 4 + b * 2 + c) with (c + (2 * i + b) * 2) by lia.
  rewrite N.mod_add by lia. rewrite N.div_add by lia.
  rewrite (N.mod_small c 2) by lia. rewrite (N.div_small c 2) by lia.
  split; [reflexivity|].
  replace (0 + (2 * i + b)) with (b + i * 2) by lia.
  rewrite N.mod_add by lia. apply N.mod_small; lia.
Qed.

Lemma sid_of_role r d i : sid_role (sid_of r d i) = r.
Proof.
  unfold sid_role, sid_of.
  destruct (sid_arith i (dir_bit d) (role_bit r)) as [H _]; [destruct d; cbn; lia|destruct r; cbn; lia|].
  rewrite H. destruct r; reflexivity.
Qed.

Lemma sid_of_dir r d i : sid_dir (sid_of r d i) = d.
Proof.
  unfold sid_dir, sid_of.
  destruct (sid_arith i (dir_bit d) (role_bit r)) as [_ H]; [destruct d; cbn; lia|destruct r; cbn; lia|].
  rewrite H. destruct d; reflexivity.
Qed.

(* ---------------------------------------------------------------- local ids *)
Inductive lop := LAlloc (d : dir) | LIncrease (d : dir) (v : N) | LRevise (rejected : bool) (bi uni : N).

Definition l_step (r : role) (s : lsid) (o : lop) : lsid * option N :=
  match o with
  | LAlloc d => let '(s', res) := poll_alloc_sid r s d in
                (s', match res with AllocSid sid => Some sid | _ => None end)
  | LIncrease d v => (match increase_limit s d v with Some s' => s' | None => s end, None)
  | LRevise rej bi uni => (match revise_max_streams s rej bi uni with Some s' => s' | None => s end, None)
  end.

(* final state and the ids handed out, in order *)
Fixpoint l_exec (r : role) (s : lsid) (ops : list lop) : lsid * list N :=
  match ops with
  | [] => (s, [])
  | o :: rest =>
    let '(s1, out) := l_step r s o in
    let '(s2, outs) := l_exec r s1 rest in
    (s2, match out with Some sid => sid :: outs | None => outs end)
  end.

Definition no_reject (o : lop) : Prop := match o with LRevise true _ _ => False | _ => True end.

(* opened count <= the peer's current maximum, in both directions *)
Definition Linv (s : lsid) : Prop := forall d, pget (l_next s) d <= pget (l_max s) d.

Lemma alloc_spec r s d s' res :
  poll_alloc_sid r s d = (s', res) ->
  match res with
  | AllocSid sid => sid = sid_of r d (pget (l_next s) d) /\ pget (l_next s) d < pget (l_max s) d
                    /\ l_next s' = pset (l_next s) d (pget (l_next s) d + 1) /\ l_max s' = l_max s
  | AllocPending m => s' = s /\ m = pget (l_max s) d /\ pget (l_max s) d <= pget (l_next s) d
  | AllocNone => s' = s
  end.
Proof.
  unfold poll_alloc_sid. intros H.
  destruct (N.ltb_spec MAX_STREAMS_LIMIT (pget (l_next s) d)).
  - inversion H; subst; reflexivity.
  - destruct (N.ltb_spec (pget (l_next s) d) (pget (l_max s) d)); inversion H; subst; cbn; auto.
Qed.

Lemma increase_spec s d v s' :
  increase_limit s d v = Some s' ->
  l_next s' = l_next s /\ pget (l_max s') d = N.max (pget (l_max s) d) v
  /\ (forall d', d' <> d -> pget (l_max s') d' = pget (l_max s) d').
Proof.
  unfold increase_limit. intros H.
  destruct (N.ltb_spec MAX_STREAMS_LIMIT v); [discriminate|].
  destruct (N.ltb_spec (pget (l_max s) d) v); inversion H; subst; cbn.
  - rewrite pget_pset_same. split; [reflexivity|]. split; [lia|].
    intros d' Hd. apply pget_pset_other. congruence.
  - split; [reflexivity|]. split; [lia|]. auto.
Qed.

Lemma Linv_increase s d v s' : Linv s -> increase_limit s d v = Some s' -> Linv s'.
Proof.
  intros I H. destruct (increase_spec _ _ _ _ H) as (Hn & Hm & Ho).
  intro d'. rewrite Hn. destruct d, d'; try (rewrite Hm; specialize (I Bi) + specialize (I Uni); lia);
  rewrite Ho by congruence; apply I.
Qed.

Lemma Linv_step r s o : no_reject o -> Linv s -> Linv (fst (l_step r s o)).
Proof.
  intros NR I. destruct o as [d|d v|rej bi uni]; cbn [l_step].
  - destruct (poll_alloc_sid r s d) as [s' res] eqn:E. cbn.
    pose proof (alloc_spec _ _ _ _ _ E) as A. destruct res.
    + subst; assumption.
    + destruct A as (_ & Hlt & Hn & Hm). intro d'. rewrite Hn, Hm.
      destruct d, d'; cbn in *; try apply (I Uni); try apply (I Bi); lia.
    + destruct A as (-> & _); assumption.
  - destruct (increase_limit s d v) eqn:E; cbn; [eapply Linv_increase; eauto|assumption].
  - destruct rej; [contradiction|]. unfold revise_max_streams.
    destruct (increase_limit s Bi bi) eqn:E1; cbn; [|assumption].
    destruct (increase_limit l Uni uni) eqn:E2; cbn; [|assumption].
    eapply Linv_increase; [|eassumption]. eapply Linv_increase; eauto.
Qed.

Lemma p_c12_open_bound r ops s :
  Forall no_reject ops -> Linv s -> Linv (fst (l_exec r s ops)).
Proof.
  revert s. induction ops as [|o rest IH]; intros s F I; [exact I|].
  inversion F; subst. cbn [l_exec].
  pose proof (Linv_step r s o H1 I) as I1.
  destruct (l_step r s o) as [s1 out]. destruct (l_exec r s1 rest) as [s2 outs] eqn:E.
  cbn. specialize (IH s1 H2 I1). rewrite E in IH. exact IH.
Qed.

(* every id handed out is the next unused index of its kind and lies below the limit in force *)
Lemma p_c12_open_ids r s d s' sid :
  poll_alloc_sid r s d = (s', AllocSid sid) ->
  sid = sid_of r d (pget (l_next s) d) /\ sid_idx sid < pget (l_max s) d
  /\ pget (l_next s') d = pget (l_next s) d + 1.
Proof.
  intros H. destruct (alloc_spec _ _ _ _ _ H) as (-> & Hlt & Hn & _).
  rewrite sid_of_idx, Hn, pget_pset_same. auto.
Qed.

(* the limit in force is the largest value the peer ever granted (outside 0-RTT rejection) *)
Fixpoint granted (m : N) (d : dir) (ops : list lop) : N :=
  match ops with
  | [] => m
  | LIncrease d' v :: rest =>
    granted (if dir_eqb d d' && (v <=? MAX_STREAMS_LIMIT) then N.max m v else m) d rest
  | LRevise false bi uni :: rest =>
    let v := match d with Bi => bi | Uni => uni end in
    granted (if (bi <=? MAX_STREAMS_LIMIT) && (uni <=? MAX_STREAMS_LIMIT) then N.max m v else m) d rest
  | _ :: rest => granted m d rest
  end.

Lemma p_c12_limit_is_granted r ops s d :
  Forall no_reject ops -> pget (l_max (fst (l_exec r s ops))) d = granted (pget (l_max s) d) d ops.
Proof.
  revert s. induction ops as [|o rest IH]; intros s F; [reflexivity|].
  inversion F; subst. cbn [l_exec].
  destruct (l_step r s o) as [s1 out] eqn:E1. destruct (l_exec r s1 rest) as [s2 outs] eqn:E2.
  cbn [fst]. specialize (IH s1 H2). rewrite E2 in IH. cbn [fst] in IH. rewrite IH. clear IH E2.
  destruct o as [d'|d' v|rej bi uni]; cbn [l_step] in E1; cbn [granted].
  - destruct (poll_alloc_sid r s d') as [s' res] eqn:E. inversion E1; subst.
    pose proof (alloc_spec _ _ _ _ _ E) as A. destruct res.
    + subst; reflexivity.
    + destruct A as (_ & _ & _ & ->). reflexivity.
    + destruct A as (-> & _). reflexivity.
  - inversion E1; subst. unfold increase_limit.
    destruct (N.ltb_spec MAX_STREAMS_LIMIT v); destruct (N.leb_spec v MAX_STREAMS_LIMIT); try lia.
    + rewrite andb_false_r. reflexivity.
    + rewrite andb_true_r. destruct (N.ltb_spec (pget (l_max s) d') v); cbn [l_max];
      destruct d, d'; cbn in *; f_equal; lia.
  - destruct rej; [contradiction|]. inversion E1; subst. unfold revise_max_streams, increase_limit.
    destruct (N.ltb_spec MAX_STREAMS_LIMIT bi); destruct (N.leb_spec bi MAX_STREAMS_LIMIT); try lia; cbn [andb].
    + reflexivity.
    + destruct (N.ltb_spec (pget (l_max s) Bi) bi); cbn [l_max l_next];
      destruct (N.ltb_spec MAX_STREAMS_LIMIT uni); destruct (N.leb_spec uni MAX_STREAMS_LIMIT); try lia; cbn [andb];
      repeat match goal with |- context [N.ltb ?a ?b] => destruct (N.ltb_spec a b) end;
      destruct d; cbn in *; f_equal; lia.
Qed.

(* ---------------------------------------------------------------- remote ids *)
Lemma try_accept_spec strict mono s d idx s' res up :
  try_accept_sid strict mono s d idx = (s', res, up) ->
  match res with
  | AccExceed m => s' = s /\ m = pget (r_max s) d /\ over_limit strict idx m = true
  | AccOld => s' = s /\ idx < pget (r_next s) d /\ over_limit strict idx (pget (r_max s) d) = false
  | AccNew first last =>
      first = pget (r_next s) d /\ last = idx /\ first <= idx
      /\ over_limit strict idx (pget (r_max s) d) = false
      /\ r_next s' = pset (r_next s) d (idx + 1) /\ r_max s' = r_max s /\ up = None
  end.
Proof.
  unfold try_accept_sid. intros H.
  destruct (over_limit strict idx (pget (r_max s) d)) eqn:O.
  - inversion H; subst. auto.
  - destruct (N.ltb_spec idx (pget (r_next s) d)).
    + inversion H; subst. auto.
    + unfold ctrl_on_accept, apply_up in H. inversion H; subst. cbn. repeat split; auto.
Qed.

(* what the code guarantees: an accepted index is at most the limit *)
Lemma p_c12_accept_le mono s d idx s' res up :
  try_accept_sid false mono s d idx = (s', res, up) ->
  (forall m, res <> AccExceed m) -> idx <= pget (r_max s) d.
Proof.
  intros H NE. pose proof (try_accept_spec _ _ _ _ _ _ _ _ H) as A.
  destruct res.
  - exfalso; eapply NE; reflexivity.
  - destruct A as (_ & _ & O). unfold over_limit in O. apply N.ltb_ge in O. exact O.
  - destruct A as (_ & _ & _ & O & _). unfold over_limit in O. apply N.ltb_ge in O. exact O.
Qed.

(* the full-strength statement, conditional on the known class F14 (index = limit) *)
Lemma p_c12_accept_bound mono s d idx s' res up :
  try_accept_sid false mono s d idx = (s', res, up) ->
  idx <> pget (r_max s) d ->
  (forall m, res <> AccExceed m) -> idx < pget (r_max s) d.
Proof.
  intros H NK NE. pose proof (p_c12_accept_le _ _ _ _ _ _ _ H NE). lia.
Qed.

(* and conversely everything below the limit is accepted, everything above is refused *)
Lemma p_c12_accept_exact strict mono s d idx :
  (exists m, snd (fst (try_accept_sid strict mono s d idx)) = AccExceed m)
  <-> over_limit strict idx (pget (r_max s) d) = true.
Proof.
  unfold try_accept_sid. destruct (over_limit strict idx (pget (r_max s) d)) eqn:O; cbn.
  - split; eauto.
  - split; [|discriminate]. intros [m Hm].
    destruct (idx <? pget (r_next s) d); cbn in Hm; discriminate.
Qed.

(* the RFC's comparison never lets the boundary index in *)
Lemma p_c12_accept_bound_strict mono s d idx s' res up :
  try_accept_sid true mono s d idx = (s', res, up) ->
  (forall m, res <> AccExceed m) -> idx < pget (r_max s) d.
Proof.
  intros H NE. pose proof (try_accept_spec _ _ _ _ _ _ _ _ H) as A.
  destruct res.
  - exfalso; eapply NE; reflexivity.
  - destruct A as (_ & _ & O). unfold over_limit in O. apply N.leb_gt in O. exact O.
  - destruct A as (_ & _ & _ & O & _). unfold over_limit in O. apply N.leb_gt in O. exact O.
Qed.

(* ---------------------------------------------------------------- implicit opens and the listener *)
(* component = RemoteStreamIds + the listener queue of one connection, per direction;
   ops: a peer frame naming index idx, an accept call, end of a stream, STREAMS_BLOCKED *)
Inductive rop := RUse (d : dir) (idx : N) | RPop (d : dir) | REnd (d : dir) (idx : N) | RBlocked (d : dir) (v : N).

Record rl := mkrl { rl_s : rsid; rl_q : list N * list N; rl_y : list N * list N }.

Definition qget (p : list N * list N) (d : dir) : list N := match d with Bi => fst p | Uni => snd p end.
Definition qset (p : list N * list N) (d : dir) (v : list N) : list N * list N :=
  match d with Bi => (v, snd p) | Uni => (fst p, v) end.

Definition rl_step (strict mono : bool) (peer : role) (x : rl) (o : rop) : rl :=
  match o with
  | RUse d idx =>
    let '(s', res, _) := try_accept_sid strict mono (rl_s x) d idx in
    match res with
    | AccNew first last =>
      mkrl s' (qset (rl_q x) d (qget (rl_q x) d ++ map (sid_of peer d) (need_create first last))) (rl_y x)
    | _ => mkrl s' (rl_q x) (rl_y x)
    end
  | RPop d =>
    match qget (rl_q x) d with
    | [] => x
    | sid :: q => mkrl (rl_s x) (qset (rl_q x) d q) (qset (rl_y x) d (qget (rl_y x) d ++ [sid]))
    end
  | REnd d idx => mkrl (fst (on_end_of_stream mono (rl_s x) d idx)) (rl_q x) (rl_y x)
  | RBlocked d v => mkrl (fst (recv_streams_blocked mono (rl_s x) d v)) (rl_q x) (rl_y x)
  end.

Definition rl_exec strict mono peer := fold_left (rl_step strict mono peer).

(* yielded ++ queued = the ids of indices 0 .. next-1, in order, without repetition *)
Definition Rinv (peer : role) (x : rl) : Prop :=
  forall d, qget (rl_y x) d ++ qget (rl_q x) d
            = map (sid_of peer d) (range_nat 0 (N.to_nat (pget (r_next (rl_s x)) d))).

Lemma range_nat_app a n m : range_nat a (n + m) = range_nat a n ++ range_nat (a + N.of_nat n) m.
Proof.
  revert a. induction n as [|n IH]; intro a; cbn [range_nat plus app].
  - f_equal. lia.
  - f_equal. rewrite IH. do 2 f_equal. lia.
Qed.

Lemma qget_qset_same p d v : qget (qset p d v) d = v.
Proof. destruct d; reflexivity. Qed.
Lemma qget_qset_other p d d' v : d <> d' -> qget (qset p d v) d' = qget p d'.
Proof. destruct d, d'; intro; try reflexivity; congruence. Qed.

Lemma dir_dec (a b : dir) : {a = b} + {a <> b}.
Proof. decide equality. Qed.

Lemma end_next mono s d idx : r_next (fst (on_end_of_stream mono s d idx)) = r_next s.
Proof. unfold on_end_of_stream. destruct (ctrl_on_end (r_ctrl s) d idx) as [c up]. destruct (apply_up mono (r_max s) d up). reflexivity. Qed.
Lemma blocked_next mono s d v : r_next (fst (recv_streams_blocked mono s d v)) = r_next s.
Proof.
  unfold recv_streams_blocked. destruct (mono && _); [reflexivity|].
  destruct (ctrl_on_blocked _ _ _) as [c up]. destruct (apply_up mono (r_max s) d up). reflexivity.
Qed.

Lemma Rinv_step strict mono peer x o : Rinv peer x -> Rinv peer (rl_step strict mono peer x o).
Proof.
  intros I. destruct o as [d idx|d|d idx|d v]; cbn [rl_step].
  - destruct (try_accept_sid strict mono (rl_s x) d idx) as [[s' res] up] eqn:E.
    pose proof (try_accept_spec _ _ _ _ _ _ _ _ E) as A. destruct res.
    + destruct A as (-> & _). exact I.
    + destruct A as (-> & _). exact I.
    + destruct A as (-> & -> & Hle & _ & Hn & _ & _). intro d'. cbn [rl_s rl_q rl_y].
      destruct (dir_dec d d') as [<-|Hd].
      * rewrite qget_qset_same, Hn, pget_pset_same, app_assoc, (I d), <- map_app. f_equal.
        unfold need_create.
        replace (N.to_nat (idx + 1)) with (N.to_nat (pget (r_next (rl_s x)) d) + N.to_nat (idx + 1 - pget (r_next (rl_s x)) d))%nat by lia.
        rewrite range_nat_app. do 2 f_equal. lia.
      * rewrite qget_qset_other by assumption. rewrite Hn, pget_pset_other by assumption. apply I.
  - destruct (qget (rl_q x) d) as [|sid q] eqn:Q; [exact I|].
    intro d'. cbn [rl_s rl_q rl_y]. destruct (dir_dec d d') as [<-|Hd].
    + rewrite !qget_qset_same, <- app_assoc. cbn [app]. rewrite <- Q. apply I.
    + rewrite !qget_qset_other by assumption. apply I.
  - intro d'. cbn [rl_s rl_q rl_y]. rewrite end_next. apply I.
  - intro d'. cbn [rl_s rl_q rl_y]. rewrite blocked_next. apply I.
Qed.

Definition rl_init (s : rsid) : rl := mkrl s ([], []) ([], []).

Lemma p_c12_implicit_open strict mono peer ops s :
  r_next s = (0, 0) -> Rinv peer (rl_exec strict mono peer ops (rl_init s)).
Proof.
  intros H0. unfold rl_exec.
  assert (I0 : Rinv peer (rl_init s)).
  { intro d. cbn. rewrite H0. destruct d; reflexivity. }
  revert I0. generalize (rl_init s). induction ops as [|o rest IH]; intros x I; cbn [fold_left]; auto.
  apply IH. apply Rinv_step. exact I.
Qed.

(* using index n makes every index <= n exist at once *)
Lemma p_c12_implicit_all strict mono s d idx s' first last up :
  try_accept_sid strict mono s d idx = (s', AccNew first last, up) ->
  need_create first last = range_nat (pget (r_next s) d) (N.to_nat (idx + 1 - pget (r_next s) d))
  /\ pget (r_next s') d = idx + 1.
Proof.
  intros H. pose proof (try_accept_spec _ _ _ _ _ _ _ _ H) as (-> & -> & _ & _ & Hn & _).
  split; [reflexivity|]. rewrite Hn. apply pget_pset_same.
Qed.

Lemma NoDup_range a n : NoDup (range_nat a n).
Proof.
  assert (G : forall n a x, In x (range_nat a n) -> a <= x).
  { induction n0 as [|k IH]; intros b x Hin; cbn in Hin; [contradiction|].
    destruct Hin as [<-|Hin]; [lia|]. apply IH in Hin. lia. }
  revert a. induction n as [|n IH]; intro a; cbn; constructor; auto.
  intro Hin. apply G in Hin. lia.
Qed.

Lemma sid_of_inj r d i j : sid_of r d i = sid_of r d j -> i = j.
Proof. intro H. apply (f_equal sid_idx) in H. rewrite !sid_of_idx in H. exact H. Qed.

(* hence no stream is offered twice *)
Lemma p_c12_implicit_once strict mono peer ops s d :
  r_next s = (0, 0) ->
  NoDup (qget (rl_y (rl_exec strict mono peer ops (rl_init s))) d ++ qget (rl_q (rl_exec strict mono peer ops (rl_init s))) d).
Proof.
  intro H0. rewrite (p_c12_implicit_open strict mono peer ops s H0 d).
  apply Injective_map_NoDup; [|apply NoDup_range].
  intros i j. apply sid_of_inj.
Qed.

(* ---------------------------------------------------------------- the advertised limit (F27) *)
(* RemoteStreamIds::raise_limit: whatever the strategy answers, the limit never goes down, and a
   MAX_STREAMS frame is queued exactly when it goes up, carrying the new limit *)
Lemma apply_up_spec max d up max' adv :
  apply_up true max d up = (max', adv) ->
  (forall d', pget max d' <= pget max' d')
  /\ match adv with
     | Some a => a = pget max' d /\ pget max d < a /\ up = Some a
     | None => max' = max
     end.
Proof.
  unfold apply_up, raise_limit. destruct up as [m|]; intro H.
  - destruct (N.ltb_spec (pget max d) m); inversion H; subst.
    + split.
      * intro d'. destruct (dir_dec d d') as [<-|Hd]; [rewrite pget_pset_same; lia|].
        rewrite pget_pset_other by assumption. lia.
      * rewrite pget_pset_same. auto.
    + split; [intro; lia|reflexivity].
  - inversion H; subst. split; [intro; lia|reflexivity].
Qed.

Definition max_le (a b : N * N) : Prop := forall d, pget a d <= pget b d.

Lemma accept_max_mono strict s d idx : max_le (r_max s) (r_max (fst (fst (try_accept_sid strict true s d idx)))).
Proof.
  destruct (try_accept_sid strict true s d idx) as [[s' res] up] eqn:E.
  pose proof (try_accept_spec _ _ _ _ _ _ _ _ E) as A. cbn [fst]. intro d'.
  destruct res; [destruct A as (-> & _)|destruct A as (-> & _)|destruct A as (_ & _ & _ & _ & _ & -> & _)]; lia.
Qed.

Lemma end_max_mono s d idx :
  max_le (r_max s) (r_max (fst (on_end_of_stream true s d idx)))
  /\ match snd (on_end_of_stream true s d idx) with
     | Some a => a = pget (r_max (fst (on_end_of_stream true s d idx))) d /\ pget (r_max s) d < a
     | None => r_max (fst (on_end_of_stream true s d idx)) = r_max s
     end.
Proof.
  unfold on_end_of_stream. destruct (ctrl_on_end (r_ctrl s) d idx) as [c up].
  destruct (apply_up true (r_max s) d up) as [max' adv] eqn:E. cbn [fst snd r_max].
  destruct (apply_up_spec _ _ _ _ _ E) as [H1 H2]. split; [exact H1|].
  destruct adv; [tauto|exact H2].
Qed.

Lemma blocked_max_mono s d v :
  max_le (r_max s) (r_max (fst (recv_streams_blocked true s d v)))
  /\ match snd (recv_streams_blocked true s d v) with
     | Some a => a = pget (r_max (fst (recv_streams_blocked true s d v))) d /\ pget (r_max s) d < a
     | None => r_max (fst (recv_streams_blocked true s d v)) = r_max s
     end.
Proof.
  unfold recv_streams_blocked. cbn [andb].
  destruct (v <? pget (r_max s) d); [cbn; split; [intro; lia|reflexivity]|].
  destruct (ctrl_on_blocked (r_ctrl s) d (pget (r_max s) d)) as [c up].
  destruct (apply_up true (r_max s) d up) as [max' adv] eqn:E. cbn [fst snd r_max].
  destruct (apply_up_spec _ _ _ _ _ E) as [H1 H2]. split; [exact H1|].
  destruct adv; [tauto|exact H2].
Qed.

(* for every operation, including STREAMS_BLOCKED with any value, the limit does not decrease *)
Lemma p_c12_limit_monotone_step strict peer x o :
  max_le (r_max (rl_s x)) (r_max (rl_s (rl_step strict true peer x o))).
Proof.
  destruct o as [d idx|d|d idx|d v]; cbn [rl_step].
  - pose proof (accept_max_mono strict (rl_s x) d idx) as M.
    destruct (try_accept_sid strict true (rl_s x) d idx) as [[s' res] up]. cbn [fst] in M.
    destruct res; exact M.
  - destruct (qget (rl_q x) d); intro; cbn; lia.
  - apply end_max_mono.
  - apply blocked_max_mono.
Qed.

Lemma p_c12_limit_monotone strict peer ops x :
  max_le (r_max (rl_s x)) (r_max (rl_s (rl_exec strict true peer ops x))).
Proof.
  unfold rl_exec. revert x. induction ops as [|o rest IH]; intro x; cbn [fold_left]; [intro; lia|].
  intro d. pose proof (p_c12_limit_monotone_step strict peer x o d).
  pose proof (IH (rl_step strict true peer x o) d). lia.
Qed.

(* the value carried by the peer's STREAMS_BLOCKED frame has no influence beyond "stale or not":
   the new limit is a function of the receiver's own state *)
Lemma p_c12_blocked_own_state s d v v' :
  pget (r_max s) d <= v -> pget (r_max s) d <= v' ->
  recv_streams_blocked true s d v = recv_streams_blocked true s d v'.
Proof.
  intros H H'. unfold recv_streams_blocked. cbn [andb].
  destruct (N.ltb_spec v (pget (r_max s) d)); [lia|].
  destruct (N.ltb_spec v' (pget (r_max s) d)); [lia|]. reflexivity.
Qed.
Lemma p_c12_blocked_stale s d v :
  v < pget (r_max s) d -> recv_streams_blocked true s d v = (s, None).
Proof.
  intro H. unfold recv_streams_blocked. cbn [andb].
  destruct (N.ltb_spec v (pget (r_max s) d)); [reflexivity|lia].
Qed.
(* DemandConcurrency: exactly one more stream per demand; ConsistentConcurrency: unmoved *)
Lemma p_c12_blocked_demand s d v :
  r_ctrl s = Demand -> pget (r_max s) d <= v ->
  recv_streams_blocked true s d v
  = (mkrsid (pset (r_max s) d (pget (r_max s) d + 1)) (r_next s) Demand, Some (pget (r_max s) d + 1)).
Proof.
  intros Hc H. unfold recv_streams_blocked. cbn [andb]. rewrite Hc.
  destruct (N.ltb_spec v (pget (r_max s) d)); [lia|].
  cbn [ctrl_on_blocked apply_up raise_limit].
  destruct (N.ltb_spec (pget (r_max s) d) (pget (r_max s) d + 1)); [reflexivity|lia].
Qed.
Lemma p_c12_blocked_consistent s d v ms :
  r_ctrl s = Consistent ms -> fst (recv_streams_blocked true s d v) = s /\ snd (recv_streams_blocked true s d v) = None.
Proof.
  intros Hc. unfold recv_streams_blocked. cbn [andb]. rewrite Hc.
  destruct (v <? pget (r_max s) d); [auto|]. cbn. destruct s; cbn in *; subst; auto.
Qed.
(* ConsistentConcurrency keeps its own counter equal to the limit, so each ended stream adds one *)
Definition ctrl_synced (s : rsid) : Prop :=
  match r_ctrl s with Consistent ms => ms = r_max s | Demand => True end.
Lemma p_c12_end_consistent s d idx :
  ctrl_synced s ->
  ctrl_synced (fst (on_end_of_stream true s d idx))
  /\ match r_ctrl s with
     | Consistent _ => snd (on_end_of_stream true s d idx) = Some (pget (r_max s) d + 1)
     | Demand => snd (on_end_of_stream true s d idx) = None
     end.
Proof.
  unfold ctrl_synced, on_end_of_stream. destruct (r_ctrl s) as [ms|] eqn:C.
  - intros ->. cbn [ctrl_on_end apply_up raise_limit].
    destruct (N.ltb_spec (pget (r_max s) d) (pget (r_max s) d + 1)); [|lia].
    cbn [fst snd r_ctrl r_max]. auto.
  - intros _. cbn. auto.
Qed.

(* before the repair: DemandConcurrency, limit 6, STREAMS_BLOCKED(1) -> limit 2 *)
Lemma p_c12_limit_monotone_refuted :
  exists s d v, pget (r_max (fst (recv_streams_blocked false s d v))) d < pget (r_max s) d.
Proof. exists (mkrsid (6, 6) (0, 0) Demand), Bi, 1. vm_compute. reflexivity. Qed.
