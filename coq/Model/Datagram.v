(* Model of qdatagram (writer.rs, reader.rs, lib.rs) and of the DATAGRAM part of
   qbase/src/frame/{datagram.rs, io.rs}.  Definitions only.

   Outgoing side  : DatagramOutgoing = Mutex<Result<RawDatagramWriter{datagrams: VecDeque<Bytes>}, Error>>
                    DatagramWriter::send_bytes  (size check of the length-form frame against the PEER's maximum)
                    DatagramOutgoing::try_load_data_into  (length / no-length form, padding first)
   Incoming side  : DatagramIncoming = Mutex<Result<RawDatagarmReader{local_max_size, rcvd_datagrams}, Error>>
                    DatagramIncoming::recv_datagram (size check against the LOCAL maximum)
                    DatagramReader::poll_recv
   Wire           : put_data_frame (type 0x30|len-bit, [varint length], data), be_frame/complete_frame for
                    PADDING and DATAGRAM.
   Every `unwrap`/`expect`/out-of-room write of the Rust is an explicit `LPanic` outcome. *)
From Coq Require Import List NArith ZArith Bool.
From GQ Require Export Lib.Base Lib.VarintN.
Import ListNotations.
Local Open Scope N_scope.

(* ---------------- state ---------------- *)

Record dg := mkdg {
  peer_max  : N;                          (* remote max_datagram_frame_size given to new_writer *)
  local_max : N;                          (* local max_datagram_frame_size given to DatagramIncoming::new *)
  wq : option (list (list Z));            (* None = Err(connection error) *)
  rq : option (list (list Z))
}.

Definition dg_init (pm lm : N) : dg := mkdg pm lm (Some []) (Some []).

(* ---------------- writer ---------------- *)

Inductive send_res := SendOk | SendTooLarge | SendClosed | SendDisabled.

(* DatagramOutgoing::new_writer fails for max_datagram_frame_size = 0 (the harness then has no writer);
   DatagramWriter::send_bytes: connection error first, then the size of the LENGTH form of the frame, which is the
   largest one the loader can build:  `1 + VarInt::try_from(len).map_or(8, encoding_size) + len > max`
   (repaired code, commit "fix: DatagramWriter refuses datagrams whose length-form frame exceeds the peer's limit") *)
Definition send_len_size (len : N) : N := if VARINT_MAX <=? len then 8 else varint_size len.

Definition send (s : dg) (d : list Z) : dg * send_res :=
  if peer_max s =? 0 then (s, SendDisabled)
  else match wq s with
       | None => (s, SendClosed)
       | Some q =>
           if peer_max s <? 1 + send_len_size (lenN d) + lenN d then (s, SendTooLarge)
           else (mkdg (peer_max s) (local_max s) (Some (q ++ [d])) (rq s), SendOk)
       end.

(* ---------------- try_load_data_into ---------------- *)

Inductive load_res :=
| LClosed                                   (* Err(Signals::empty()) *)
| LEmpty                                    (* Err(Signals::TRANSPORT) *)
| LNoRoom                                   (* Err(Signals::CONGESTION) *)
| LFrame (with_len : bool) (npad : N) (d : list Z)
| LPanic (site : N).

(* `(frame, data).dump(packet)` of qbase/src/packet/io.rs: Err(CONGESTION) unless
   remaining >= max_encoding_size (9) or remaining >= encoding_size (header only); the caller unwraps *)
Definition dump_admits (remaining hdr : N) : bool := (9 <=? remaining) || (hdr <=? remaining).

Definition frame_hdr_size (with_len : bool) (len : N) : N :=
  1 + (if with_len then varint_size len else 0).

Definition load_choice (remaining : N) (d : list Z) : load_res :=
  let len := lenN d in
  let n := remaining - len in                       (* available.saturating_sub(datagram.len()) *)
  if n =? 0 then LNoRoom
  else if VARINT_MAX <=? len then LPanic 1          (* VarInt::try_from(len).unwrap() *)
  else if frame_hdr_size true len <=? n then
    (* with length *)
    if negb (dump_admits remaining (frame_hdr_size true len)) then LPanic 2
    else if remaining <? frame_hdr_size true len + len then LPanic 3     (* put_slice past the end *)
    else LFrame true 0 d
  else
    (* without length: n - 1 PADDING bytes first *)
    let pad := n - frame_hdr_size false len in
    let rem' := remaining - pad in
    if negb (dump_admits rem' (frame_hdr_size false len)) then LPanic 4
    else if rem' <? 1 + len then LPanic 5
    else LFrame false pad d.

Definition load (s : dg) (remaining : N) : dg * load_res :=
  match wq s with
  | None => (s, LClosed)
  | Some [] => (s, LEmpty)
  | Some (d :: q) =>
      match load_choice remaining d with
      | LNoRoom => (s, LNoRoom)
      | r => (mkdg (peer_max s) (local_max s) (Some q) (rq s), r)      (* pop_front *)
      end
  end.

(* bytes put into the packet *)
Definition frame_bytes (with_len : bool) (d : list Z) : list Z :=
  (if with_len then 49%Z :: varint_enc (lenN d) else [48%Z]) ++ d.

Definition wire_bytes (r : load_res) : list Z :=
  match r with
  | LFrame wl npad d => repeat 0%Z (N.to_nat npad) ++ frame_bytes wl d
  | _ => []
  end.

(* `Repeat(datagram source)`: loads repeated into the SAME packet until one is declined *)
Fixpoint load_all_q (q : list (list Z)) (remaining : N) : list load_res * list (list Z) * load_res :=
  match q with
  | [] => ([], [], LEmpty)
  | d :: q' =>
      match load_choice remaining d with
      | LFrame wl npad d' =>
          let '(rs, qf, last) := load_all_q q' (remaining - lenN (wire_bytes (LFrame wl npad d'))) in
          (LFrame wl npad d' :: rs, qf, last)
      | LPanic site => ([], q', LPanic site)
      | r => ([], q, r)
      end
  end.

Definition load_all (s : dg) (remaining : N) : dg * list load_res * load_res :=
  match wq s with
  | None => (s, [], LClosed)
  | Some q =>
      let '(rs, qf, last) := load_all_q q remaining in
      (mkdg (peer_max s) (local_max s) (Some qf) (rq s), rs, last)
  end.

(* ---------------- FrameReader restricted to PADDING / DATAGRAM ---------------- *)

Inductive pframe := PDatagram (with_len : bool) (d : list Z).

(* returns (parsed_ok, number of padding frames, datagram frames in order) *)
Fixpoint parse_frames (fuel : nat) (bs : list Z) (npad : N) (acc : list pframe) : bool * N * list pframe :=
  match fuel with
  | O => (match bs with [] => true | _ => false end, npad, rev acc)
  | S f =>
    match bs with
    | [] => (true, npad, rev acc)
    | b :: tl =>
      if (b =? 0)%Z then parse_frames f tl (npad + 1) acc
      else if (b =? 48)%Z then (true, npad, rev (PDatagram false tl :: acc))
      else if (b =? 49)%Z then
        match varint_dec tl with
        | None => (false, npad, rev acc)
        | Some (l, rest) =>
            if lenN rest <? l then (false, npad, rev acc)
            else parse_frames f (dropN l rest) npad (PDatagram true (takeN l rest) :: acc)
        end
      else (false, npad, rev acc)
    end
  end.

Definition parse (bs : list Z) := parse_frames (S (length bs)) bs 0 [].

(* ---------------- reader ---------------- *)

Inductive recv_res := RecvOk | RecvViolation | RecvClosed.

(* DatagramIncoming::recv_datagram: `(frame.encoding_size() + data.len()) > local_max_size` -> ProtocolViolation *)
Definition recv_datagram (s : dg) (with_len : bool) (d : list Z) : dg * recv_res :=
  match rq s with
  | None => (s, RecvClosed)
  | Some q =>
      if local_max s <? frame_hdr_size with_len (lenN d) + lenN d then (s, RecvViolation)
      else (mkdg (peer_max s) (local_max s) (wq s) (Some (q ++ [d])), RecvOk)
  end.

Fixpoint recv_all (s : dg) (fs : list pframe) : dg * list recv_res :=
  match fs with
  | [] => (s, [])
  | PDatagram wl d :: rest =>
      let '(s1, r) := recv_datagram s wl d in
      let '(s2, rs) := recv_all s1 rest in (s2, r :: rs)
  end.

Inductive read_res := ReadSome (d : list Z) | ReadPending | ReadClosed | ReadDisabled.

Definition read (s : dg) : dg * read_res :=
  if local_max s =? 0 then (s, ReadDisabled)
  else match rq s with
       | None => (s, ReadClosed)
       | Some [] => (s, ReadPending)
       | Some (d :: q) => (mkdg (peer_max s) (local_max s) (wq s) (Some q), ReadSome d)
       end.

Definition conn_error (s : dg) : dg := mkdg (peer_max s) (local_max s) None None.

(* ---------------- operations of the `datagram` stream ---------------- *)

Inductive dg_op :=
| DSend (d : list Z)
| DLoad (remaining : N) (deliver : bool)
| DLoadAll (remaining : N) (deliver : bool)
| DRecvFrame (with_len : bool) (d : list Z)
| DRead
| DConnErr.

Inductive dg_out :=
| OSend (r : send_res)
| OLoad (r : load_res) (delivery : option (bool * N * list recv_res))
| OLoadAll (rs : list load_res) (last : load_res) (delivery : option (bool * N * list recv_res))
| ORecvFrame (ok : bool) (npad : N) (rs : list recv_res)
| ORead (r : read_res)
| OConnErr.

Definition deliver_bytes (s : dg) (bs : list Z) : dg * (bool * N * list recv_res) :=
  let '(ok, npad, fs) := parse bs in
  let '(s', rs) := recv_all s fs in (s', (ok, npad, rs)).

Definition dg_exec (s : dg) (o : dg_op) : dg * dg_out :=
  match o with
  | DSend d => let '(s', r) := send s d in (s', OSend r)
  | DLoad rem dl =>
      let '(s1, r) := load s rem in
      match r, dl with
      | LFrame _ _ _, true =>
          let '(s2, dv) := deliver_bytes s1 (wire_bytes r) in (s2, OLoad r (Some dv))
      | _, _ => (s1, OLoad r None)
      end
  | DLoadAll rem dl =>
      let '(s1, rs, last) := load_all s rem in
      match rs, dl with
      | _ :: _, true =>
          let '(s2, dv) := deliver_bytes s1 (flat_map wire_bytes rs) in (s2, OLoadAll rs last (Some dv))
      | _, _ => (s1, OLoadAll rs last None)
      end
  | DRecvFrame wl d =>
      let '(s', (ok, npad, rs)) := deliver_bytes s (frame_bytes wl d) in (s', ORecvFrame ok npad rs)
  | DRead => let '(s', r) := read s in (s', ORead r)
  | DConnErr => (conn_error s, OConnErr)
  end.

Fixpoint dg_execs (s : dg) (ops : list dg_op) : dg * list dg_out :=
  match ops with
  | [] => (s, [])
  | o :: rest =>
      let '(s1, out) := dg_exec s o in
      let '(s2, outs) := dg_execs s1 rest in (s2, out :: outs)
  end.

(* ---------------- printing (same integers as harness/hd/src/bin/impl_datagram.rs) ---------------- *)

Definition zb (b : bool) : Z := if b then 1%Z else 0%Z.

Definition send_code (r : send_res) : Z :=
  match r with SendOk => 0 | SendTooLarge => 1 | SendClosed => 2 | SendDisabled => 3 end%Z.

Definition recv_code (r : recv_res) : Z :=
  match r with RecvOk => 0 | RecvViolation => 1 | RecvClosed => 2 end%Z.

Definition print_delivery (dv : bool * N * list recv_res) : list Z :=
  let '(ok, npad, rs) := dv in
  [zb ok; Z.of_N npad; Z.of_N (lenN rs)] ++ map recv_code rs.

Definition load_code (r : load_res) : Z :=
  match r with LClosed => 100 | LEmpty => 104 | LNoRoom => 101 | LFrame _ _ _ => 0 | LPanic _ => -7 end%Z.

Definition rec_triple (r : load_res) : list Z :=
  match r with LFrame wl _ d => [zb wl; Z.of_N (lenN d); Z.of_N (lenN d)] | _ => [] end.

Definition print_out (o : dg_out) : list Z :=
  match o with
  | OSend r => [send_code r]
  | OLoad r dv =>
      match r with
      | LClosed => [100; 0; 0; -1]
      | LEmpty => [104; 0; 0; -1]
      | LNoRoom => [101; 0; 0; -1]
      | LPanic site => [-7; Z.of_N site]
      | LFrame wl npad d =>
          [0; Z.of_N (lenN (wire_bytes r))] ++ wire_bytes r ++
          [1; zb wl; Z.of_N (lenN d); Z.of_N (lenN d)] ++
          match dv with None => [-1] | Some x => print_delivery x end
      end%Z
  | OLoadAll rs last dv =>
      [Z.of_N (lenN rs); load_code last; Z.of_N (lenN (flat_map wire_bytes rs))] ++ flat_map wire_bytes rs ++
      [Z.of_N (lenN rs)] ++ flat_map rec_triple rs ++
      match dv with None => [(-1)%Z] | Some x => print_delivery x end
  | ORecvFrame ok npad rs => print_delivery (ok, npad, rs)
  | ORead r =>
      match r with
      | ReadSome d => [1; Z.of_N (lenN d)] ++ d
      | ReadPending => [0]
      | ReadClosed => [2]
      | ReadDisabled => [3]
      end%Z
  | OConnErr => [0%Z]
  end.

Definition dg_decode (t : N) (args : list Z) : option dg_op :=
  match t, args with
  | 0, [off; len] => Some (DSend (slice content (Z.to_N off) (Z.to_N len)))
  | 1, [rem; dl] => Some (DLoad (Z.to_N rem) (negb (dl =? 0)%Z))
  | 2, [wl; off; len] => Some (DRecvFrame (negb (wl =? 0)%Z) (slice content (Z.to_N off) (Z.to_N len)))
  | 3, [] => Some DRead
  | 4, [] => Some DConnErr
  | 5, [rem; dl] => Some (DLoadAll (Z.to_N rem) (negb (dl =? 0)%Z))
  | _, _ => None
  end.

Fixpoint dg_decode_all (l : list (N * list Z)) : list dg_op :=
  match l with
  | [] => []
  | (t, a) :: rest =>
      match dg_decode t a with
      | Some o => o :: dg_decode_all rest
      | None => dg_decode_all rest
      end
  end.

Definition cfg_nth (cfg : list Z) (i : nat) (dflt : N) : N :=
  match nth_error cfg i with Some v => Z.to_N v | None => dflt end.

(* CASE cfg: peer_max local_max *)
Definition run_datagram (cfg : list Z) (l : list (N * list Z)) : list (list Z) :=
  map print_out (snd (dg_execs (dg_init (cfg_nth cfg 0 1200) (cfg_nth cfg 1 1200)) (dg_decode_all l))).
