(* [c_fix23] (which DataStreams::on_conn_error the model runs) is a constant of the state: no
   operation of the stream writes it.  And: a poll that answers Pending leaves its task number in
   a waker slot. *)
From Coq Require Import List NArith ZArith Bool Lia.
From GQ Require Import Model.ConnError Proofs.ConnError Proofs.ConnErrorLater Proofs.ConnErrorClean.
Import ListNotations.
Local Open Scope N_scope.

Definition keeps (f : cm -> cm) : Prop := forall m, c_fix23 (f m) = c_fix23 m.

(* case analysis on every match / if / let-pair of the goal, then the record projections compute *)
Ltac crush :=
  repeat match goal with
         | |- context[match ?x with _ => _ end] => destruct x
         | |- context[if ?b then _ else _] => destruct b
         end; try reflexivity.

Lemma fx_wake_list : forall m l, c_fix23 (wake_list m l) = c_fix23 m. Proof. reflexivity. Qed.
Lemma fx_wake_opt : forall m o, c_fix23 (wake_opt m o) = c_fix23 m. Proof. intros; destruct o; reflexivity. Qed.
Lemma fx_upd_snd : forall m k s, c_fix23 (upd_snd m k s) = c_fix23 m. Proof. reflexivity. Qed.
Lemma fx_upd_rcv : forall m k r, c_fix23 (upd_rcv m k r) = c_fix23 m. Proof. reflexivity. Qed.
Lemma fx_set_flow : forall m a b c, c_fix23 (set_flow m a b c) = c_fix23 m. Proof. reflexivity. Qed.
Lemma fx_sid_increase : forall m d v, c_fix23 (sid_increase m d v) = c_fix23 m.
Proof. intros. unfold sid_increase. crush. Qed.
Lemma fx_hand_sender : forall m k w, c_fix23 (hand_sender m k w) = c_fix23 m.
Proof. intros. unfold hand_sender. destruct (alookup _ _); reflexivity. Qed.
Lemma fx_hand_recver : forall m k, c_fix23 (hand_recver m k) = c_fix23 m.
Proof. intros. unfold hand_recver. destruct (alookup _ _); reflexivity. Qed.

Lemma fx_poll : forall m t k, c_fix23 (fst (poll m t k)) = c_fix23 m.
Proof.
  intros m t k. destruct k; cbn [poll].
  - unfold poll_open. crush.
  - unfold poll_accept. destruct (c_out_err m); [reflexivity|]. destruct (d =? 0).
    + destruct (c_perr m); [reflexivity|]. destruct (c_pready m); [|reflexivity].
      destruct (fst (c_lq m)); cbn [fst]; [reflexivity|]. rewrite fx_hand_recver, fx_hand_sender. reflexivity.
    + destruct (snd (c_lq m)); cbn [fst]; [reflexivity|]. rewrite fx_hand_recver. reflexivity.
  - unfold poll_write. crush.
  - unfold poll_flush. crush.
  - unfold poll_shutdown. crush.
  - unfold poll_read. crush.
  - unfold poll_dgrecv. crush.
  - unfold poll_pready. crush.
Qed.

Lemma fx_start_task : forall m t k, c_fix23 (fst (start_task m t k)) = c_fix23 m.
Proof.
  intros. unfold start_task. destruct (slot_busy m k); [reflexivity|].
  pose proof (fx_poll m t k) as Q. destruct (poll m t k) as [m1 [code val]]. cbn [fst] in *.
  destruct (code =? 0)%Z; cbn [fst]; exact Q.
Qed.

Lemma fx_handshake : forall m, c_fix23 (fst (handshake m)) = c_fix23 m.
Proof.
  intros. unfold handshake. destruct (c_hs m); [reflexivity|].
  repeat match goal with
         | |- context[match ?x with Some _ => _ | None => _ end] => destruct x
         end; cbn [fst]; rewrite ?fx_set_flow, ?fx_sid_increase; reflexivity.
Qed.

Lemma fx_params_ce : forall e m, c_fix23 (params_conn_error e m) = c_fix23 m.
Proof. intros. unfold params_conn_error. destruct (c_perr m); reflexivity. Qed.
Lemma fx_dg_ce : forall e m, c_fix23 (dg_conn_error e m) = c_fix23 m.
Proof.
  intros. unfold dg_conn_error, wake_opt.
  destruct (c_dgin_err m); [destruct (c_dgout_err m); reflexivity|].
  destruct (c_wdg m); cbn; destruct (c_dgout_err m); reflexivity.
Qed.
Lemma fx_ds_ce : forall e m, c_fix23 (ds_conn_error e m) = c_fix23 m.
Proof.
  intros. unfold ds_conn_error. destruct (c_out_err m); [reflexivity|].
  destruct (map_err (snd_conn_error e) (c_snd m)). destruct (map_err (rcv_conn_error e) (c_rcv m)).
  destruct (c_fix23 m) eqn:F; cbn; rewrite ?F; reflexivity.
Qed.
Lemma fx_conn_error : forall e m, c_fix23 (conn_error e m) = c_fix23 m.
Proof. intros. unfold conn_error. rewrite fx_params_ce, fx_dg_ce, fx_ds_ce. reflexivity. Qed.

Lemma fx_dgram_send : forall m l, c_fix23 (fst (dgram_send m l)) = c_fix23 m.
Proof. intros. unfold dgram_send. crush. Qed.
Lemma fx_peer_open : forall m d, c_fix23 (fst (peer_open m d)) = c_fix23 m.
Proof. intros. unfold peer_open, wake_opt. cbn [c_out_err set_misc]. crush. Qed.
Lemma fx_peer_data : forall m s l f, c_fix23 (fst (peer_data m s l f)) = c_fix23 m.
Proof. intros. unfold peer_data. destruct (peer_may_send m s); [|reflexivity]. destruct (live_in_set m r); reflexivity. Qed.
Lemma fx_peer_fingap : forall m s g, c_fix23 (fst (peer_fingap m s g)) = c_fix23 m.
Proof.
  intros. unfold peer_fingap. destruct (peer_may_send m s); [|reflexivity]. destruct (tk_fin r); [reflexivity|].
  destruct (live_in_set m r); reflexivity.
Qed.
Lemma fx_peer_reset : forall m s, c_fix23 (fst (peer_reset m s)) = c_fix23 m.
Proof. intros. unfold peer_reset. destruct (peer_may_send m s); [|reflexivity]. destruct (live_in_set m r); reflexivity. Qed.
Lemma fx_peer_stop : forall m s, c_fix23 (fst (peer_stop m s)) = c_fix23 m.
Proof.
  intros. unfold peer_stop. destruct (peer_may_ctl m s); [|reflexivity]. destruct (sender_in_set m s); [|reflexivity].
  destruct (sn_live s0); reflexivity.
Qed.
Lemma fx_peer_maxsd : forall m s v, c_fix23 (fst (peer_maxsd m s v)) = c_fix23 m.
Proof.
  intros. unfold peer_maxsd. destruct (peer_may_ctl m s); [|reflexivity]. destruct (sender_in_set m s); [|reflexivity].
  destruct (sn_st s0); try reflexivity. destruct (_ <? _); reflexivity.
Qed.
Lemma fx_load : forall m, c_fix23 (fst (load m)) = c_fix23 m.
Proof.
  intros. unfold load. destruct (c_out_err m); [destruct (c_dgout_err m); reflexivity|].
  destruct (c_ferr m); [destruct (c_dgout_err m); reflexivity|].
  destruct (load_senders (c_snd m)) as [[s' b] f]. cbn. destruct (c_dgout_err m); reflexivity.
Qed.
Lemma fx_ack : forall m s, c_fix23 (fst (ack m s)) = c_fix23 m.
Proof.
  intros. unfold ack. destruct (sender_in_set m s); [|reflexivity]. destruct (_ || _); [|reflexivity].
  destruct (sn_st s0); reflexivity.
Qed.
Lemma fx_dgram_in : forall m l, c_fix23 (fst (dgram_in m l)) = c_fix23 m.
Proof. intros. unfold dgram_in, wake_opt. destruct (c_dgin_err m); [reflexivity|]. destruct (c_wdg m); reflexivity. Qed.
Lemma fx_flow_err : forall m e, c_fix23 (flow_conn_error e m) = c_fix23 m.
Proof. intros. unfold flow_conn_error. destruct (c_ferr m); reflexivity. Qed.

Lemma fx_race : forall m idx e t a, c_fix23 (fst (race m idx e t a)) = c_fix23 m.
Proof.
  intros m idx e t a. unfold race. destruct (race_kind t a) as [k|]; [|reflexivity].
  pose proof (fx_start_task m idx k) as Q. destruct (start_task m idx k) as [m1 o]. cbn [fst] in *.
  rewrite fx_conn_error. exact Q.
Qed.

Lemma fx_cm_op : forall m idx tag a, c_fix23 (fst (cm_op m idx tag a)) = c_fix23 m.
Proof.
  intros m idx tag a. unfold cm_op.
  repeat (match goal with
          | |- context[match ?x with _ => _ end] =>
            match type of x with
            | N => destruct x
            | positive => destruct x
            | list Z => destruct x
            end
          end); cbn [fst]; try reflexivity;
    first [ apply fx_handshake | apply fx_start_task | apply fx_sid_increase | apply fx_conn_error
          | apply fx_dgram_send | apply fx_peer_open | apply fx_peer_data | apply fx_peer_fingap
          | apply fx_peer_reset | apply fx_peer_stop | apply fx_peer_maxsd | apply fx_load | apply fx_ack
          | apply fx_dgram_in | apply fx_flow_err | apply fx_race | (rewrite p_credit; reflexivity) ].
Qed.

Lemma fx_repoll : forall todo m, c_fix23 (fst (fst (repoll m todo))) = c_fix23 m.
Proof.
  induction todo as [|[t k] rest IH]; intros m; [reflexivity|]. cbn [repoll].
  pose proof (fx_poll m t k) as Q. destruct (poll m t k) as [m1 [code val]]. cbn [fst] in Q.
  set (m2 := if (code =? 0)%Z then m1 else set_exec m1 (filter (fun tk => negb (fst tk =? t)) (c_tasks m1)) (c_woken m1)).
  assert (Q2 : c_fix23 m2 = c_fix23 m) by (subst m2; destruct (code =? 0)%Z; exact Q).
  specialize (IH m2). destruct (repoll m2 rest) as [[m3 w] n]. cbn [fst] in *.
  destruct (code =? 0)%Z; cbn [fst]; congruence.
Qed.

Lemma fx_settle : forall m self, c_fix23 (fst (settle m self)) = c_fix23 m.
Proof.
  intros. unfold settle.
  pose proof (fx_repoll (filter (fun tk => mem_tid (fst tk) (c_woken m)) (c_tasks m)) (set_exec m (c_tasks m) [])) as Q.
  destruct (repoll (set_exec m (c_tasks m) []) _) as [[m1 w] n]. cbn [fst] in *. exact Q.
Qed.

Lemma fx_cm_step : forall m idx tag a, c_fix23 (fst (cm_step m idx tag a)) = c_fix23 m.
Proof.
  intros m idx tag a. unfold cm_step. pose proof (fx_cm_op m idx tag a) as Q.
  destruct (cm_op m idx tag a) as [m1 o]. cbn [fst] in Q.
  assert (X : forall o', c_fix23 (fst (let '(m2, w) := settle m1 idx in (m2, o' ++ w))) = c_fix23 m).
  { intros o'. pose proof (fx_settle m1 idx) as S. destruct (settle m1 idx) as [m2 w]. cbn [fst] in *. congruence. }
  destruct o as [|z o1]; [apply X|].
  destruct z; try apply X. destruct p; try apply X. destruct p; try apply X. destruct p; try apply X.
  destruct p; try apply X. destruct p; try apply X. destruct p; try apply X. destruct p; try apply X.
  destruct o1; [exact Q|apply X].
Qed.

Lemma fx_cm_exec : forall ops m idx, c_fix23 (cm_exec m idx ops) = c_fix23 m.
Proof.
  induction ops as [|[t a] r IH]; intros m idx; [reflexivity|]. cbn [cm_exec]. rewrite IH. apply fx_cm_step.
Qed.

Lemma fx_init : forall f cfg m, cm_init f cfg = Some m -> c_fix23 m = f.
Proof.
  intros f cfg m H. unfold cm_init in H.
  destruct cfg as [|a [|b [|c [|d [|g [|h r]]]]]]; try discriminate. inversion H. reflexivity.
Qed.

(* c17_release_all without the hypothesis on the flag *)
Lemma p_c17_release_all' : forall cfg m0 before e after,
  cm_init true cfg = Some m0 -> Forall (fun o => fst o <> 21 /\ fst o <> 24) before ->
  let m := cm_exec m0 0 before in
  (forall t, In t (registered m) -> In t (c_woken (conn_error e m))) /\
  registered (conn_error e m) = [] /\
  forall idx, Poisoned e (cm_exec (conn_error e m) idx after).
Proof.
  intros cfg m0 before e after Hi Hb m. apply (p_c17_release_all cfg m0 before e after Hi Hb).
  unfold m. rewrite fx_cm_exec. eapply fx_init. exact Hi.
Qed.

(* ---------------------------------------------------------------- a Pending poll registers its task *)
Definition all_slots (m : cm) : list tid :=
  flat_map (fun x => sn_wakers (snd x)) (c_snd m) ++
  flat_map (fun x => opt_list (rc_wread (snd x))) (c_rcv m) ++
  opt_list (c_wbi m) ++ opt_list (c_wuni m) ++ fst (c_wsid m) ++ snd (c_wsid m) ++
  c_wparams m ++ opt_list (c_wdg m).

Lemma in_flat_aupdate_snd : forall (l : list (N * sender)) k s0 s t,
  alookup l k = Some s0 -> In t (sn_wakers s) -> In t (flat_map (fun x => sn_wakers (snd x)) (aupdate l k s)).
Proof.
  induction l as [|[k' v] r IH]; intros k s0 s t H Hin; [discriminate|]. cbn in *.
  destruct (k' =? k).
  - cbn. apply in_or_app. left. exact Hin.
  - cbn. apply in_or_app. right. eapply IH; eauto.
Qed.
Lemma in_flat_aupdate_rcv : forall (l : list (N * recver)) k r0 r t,
  alookup l k = Some r0 -> In t (opt_list (rc_wread r)) ->
  In t (flat_map (fun x => opt_list (rc_wread (snd x))) (aupdate l k r)).
Proof.
  induction l as [|[k' v] q IH]; intros k r0 r t H Hin; [discriminate|]. cbn in *.
  destruct (k' =? k).
  - cbn. apply in_or_app. left. exact Hin.
  - cbn. apply in_or_app. right. eapply IH; eauto.
Qed.
Lemma handed_sender_lookup : forall m sid s, handed_sender m sid = Some s -> alookup (c_snd m) sid = Some s.
Proof.
  intros m sid s H. unfold handed_sender in H. destruct (alookup (c_snd m) sid) as [s0|]; [|discriminate].
  destruct (sn_handed s0); inversion H; reflexivity.
Qed.

Ltac slots := unfold all_slots, lset, lget; cbn; repeat rewrite in_app_iff; cbn [In]; auto 14.

Lemma p_c17_pending_registers : forall m t k,
  fst (snd (poll m t k)) = 0%Z -> In t (all_slots (fst (poll m t k))).
Proof.
  intros m t k. destruct k as [d | d | sid len | sid | sid | sid n | | ]; cbn [poll].
  - unfold poll_open. destruct (c_out_err m); [discriminate|]. destruct (c_perr m); [discriminate|].
    destruct (open_window m).
    + destruct (_ <? _); cbn [fst snd]; [discriminate|]. intros _. destruct (d =? 0) eqn:D; unfold all_slots, lset, lget; rewrite D; slots.
    + cbn [fst snd]. intros _. slots.
  - unfold poll_accept. destruct (c_out_err m); [discriminate|]. destruct (d =? 0).
    + destruct (c_perr m); [discriminate|]. destruct (c_pready m).
      * destruct (fst (c_lq m)); cbn [fst snd]; [|discriminate]. intros _. slots.
      * cbn [fst snd]. intros _. slots.
    + destruct (snd (c_lq m)); cbn [fst snd]; [|discriminate]. intros _. slots.
  - unfold poll_write. destruct (handed_sender m sid) as [s|] eqn:E; [|discriminate].
    pose proof (handed_sender_lookup _ _ _ E) as LK.
    destruct (sn_err s); [discriminate|]. destruct (sn_st s); try discriminate.
    destruct (sn_wshut s); [discriminate|]. destruct (_ <=? _); cbn [fst snd]; [|intros X; discriminate X].
    intros _. unfold all_slots, upd_snd. cbn. apply in_or_app; left.
    eapply in_flat_aupdate_snd; [exact LK|]. unfold sn_wakers. cbn. left; reflexivity.
  - unfold poll_flush. destruct (handed_sender m sid) as [s|] eqn:E; [|discriminate].
    pose proof (handed_sender_lookup _ _ _ E) as LK.
    destruct (sn_err s); [discriminate|]. destruct (sn_st s); try discriminate;
      try (destruct (_ =? _); [discriminate|]); cbn [fst snd]; intros _;
      unfold all_slots, upd_snd; cbn; apply in_or_app; left;
      (eapply in_flat_aupdate_snd; [exact LK|]); unfold sn_wakers; cbn;
      apply in_or_app; right; left; reflexivity.
  - unfold poll_shutdown. destruct (handed_sender m sid) as [s|] eqn:E; [|discriminate].
    pose proof (handed_sender_lookup _ _ _ E) as LK.
    destruct (sn_err s); [discriminate|]. destruct (sn_st s); try discriminate; cbn [fst snd]; intros _;
      unfold all_slots, upd_snd; cbn; apply in_or_app; left;
      (eapply in_flat_aupdate_snd; [exact LK|]); unfold sn_wakers; cbn;
      apply in_or_app; right; apply in_or_app; right; left; reflexivity.
  - unfold poll_read. destruct (handed_recver m sid) as [r|] eqn:E; [|discriminate].
    pose proof (handed_recver_lookup _ _ _ E) as LK.
    destruct (rc_err r); [discriminate|]. destruct (rc_ph r); try discriminate;
      (destruct (_ <? _); cbn [fst snd]; [intros X; discriminate X|]); intros _;
      unfold all_slots, upd_rcv; cbn; apply in_or_app; right; apply in_or_app; left;
      (eapply in_flat_aupdate_rcv; [exact LK|]); cbn; left; reflexivity.
  - unfold poll_dgrecv. destruct (c_dgin_err m); [discriminate|]. destruct (c_dgin m); cbn [fst snd]; [|discriminate].
    intros _. slots.
  - unfold poll_pready. destruct (c_perr m); [discriminate|]. destruct (c_pready m); cbn [fst snd]; [discriminate|].
    intros _. slots.
Qed.

(* ---------------------------------------------------------------- a poll racing the connection error *)
(* open / accept park in slots that belong to no stream half: a Pending poll is REGISTERED (not merely in a slot) *)
Lemma open_accept_pending_registered : forall m t k,
  (exists d, k = KOpen d \/ k = KAccept d) ->
  fst (snd (poll m t k)) = 0%Z -> In t (registered (fst (poll m t k))).
Proof.
  intros m t k [d [K|K]]; subst k; cbn [poll].
  - unfold poll_open. destruct (c_out_err m); [discriminate|]. destruct (c_perr m); [discriminate|].
    destruct (open_window m).
    + destruct (_ <? _); cbn [fst snd]; [discriminate|]. intros _.
      destruct (d =? 0) eqn:D; unfold registered, lset, lget; rewrite D; cbn; repeat rewrite in_app_iff; cbn [In]; auto 14.
    + cbn [fst snd]. intros _. unfold registered; cbn; repeat rewrite in_app_iff; cbn [In]; auto 14.
  - unfold poll_accept. destruct (c_out_err m); [discriminate|]. destruct (d =? 0).
    + destruct (c_perr m); [discriminate|]. destruct (c_pready m).
      * destruct (fst (c_lq m)); cbn [fst snd]; [|discriminate]. intros _.
        unfold registered; cbn; repeat rewrite in_app_iff; cbn [In]; auto 14.
      * cbn [fst snd]. intros _. unfold registered; cbn; repeat rewrite in_app_iff; cbn [In]; auto 14.
    + destruct (snd (c_lq m)); cbn [fst snd]; [|discriminate]. intros _.
      unfold registered; cbn; repeat rewrite in_app_iff; cbn [In]; auto 14.
Qed.

Lemma race_kind_open_accept : forall t a k, race_kind t a = Some k -> exists d, k = KOpen d \/ k = KAccept d.
Proof.
  intros t a k H. unfold race_kind in H.
  destruct t as [|[[p|p|]|[p|p|]|]]; cbn in H; try discriminate H;
    destruct a as [|d [|x r]]; cbn in H; try discriminate H; inversion H; eexists; eauto.
Qed.

(* the statement for the racing schedule (stream op 24), over whole histories: any configuration, any
   error-free history, then a poll of open / accept that is inside its critical section when the
   connection error e strikes, then any further history.  The racing poll ran against the healthy
   state m; if it answered Pending its own task is woken by the close; so is every sleeper registered
   before; no slot keeps a sleeper; the connection stays poisoned with e for ever after. *)
Lemma p_c17_race : forall cfg m0 before e t a k idx after,
  cm_init true cfg = Some m0 -> Forall (fun o => fst o <> 21 /\ fst o <> 24) before ->
  race_kind t a = Some k ->
  let m := cm_exec m0 0 before in
  let m1 := fst (start_task m idx k) in
  fst (race m idx e t a) = conn_error e m1 /\
  snd (race m idx e t a) = snd (start_task m idx k) /\
  (snd (start_task m idx k) = [0%Z; 0%Z] -> In idx (c_woken (conn_error e m1))) /\
  (forall x, In x (registered m1) -> In x (c_woken (conn_error e m1))) /\
  registered (conn_error e m1) = [] /\
  forall i, Poisoned e (cm_exec (conn_error e m1) i after).
Proof.
  intros cfg m0 before e t a k idx after Hi Hb HK m m1.
  assert (F : c_fix23 m = true) by (unfold m; rewrite fx_cm_exec; eapply fx_init; exact Hi).
  assert (C : Clean m) by (apply clean_cm_exec; [exact Hb|eapply p_c17_init_clean; exact Hi]).
  assert (C1 : Clean m1) by (apply clean_start_task; exact C).
  assert (F1 : c_fix23 m1 = true) by (unfold m1; rewrite fx_start_task; exact F).
  split; [unfold race; rewrite HK; unfold m1; destruct (start_task m idx k); reflexivity|].
  split; [unfold race; rewrite HK; destruct (start_task m idx k); reflexivity|].
  split.
  - intros HP. apply conn_error_woken; [exact C1|exact F1|].
    destruct (race_kind_open_accept _ _ _ HK) as [d OA].
    unfold m1. unfold start_task in *. destruct (slot_busy m k); [cbn in HP; discriminate HP|].
    pose proof (open_accept_pending_registered m idx k (ex_intro _ d OA)) as R.
    destruct (poll m idx k) as [mp [code val]]. cbn [fst snd] in *.
    inversion HP; subst code. cbn [Z.eqb fst]. specialize (R eq_refl).
    exact R.
  - split; [intros x; apply conn_error_woken; assumption|].
    split; [apply conn_error_cleared; assumption|].
    intros i. apply p_cm_exec. apply conn_error_poisoned. exact C1.
Qed.
