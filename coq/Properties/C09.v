(* C09 — the send buffer keeps every unacknowledged byte and offers it for resending.
   Only the property theorems live here: each is closed by a lemma of Proofs/SendBuf.v, its
   statement is pinned here, and its assumptions are printed for the audit.

   [reach strict c cap ops b outs] : running [ops] on SendBuf::with_capacity(cap) (content [c]) hits no
   failed assertion and ends in state [b] with results [outs]; [reach false] has no other side condition
   (it is exactly "sb_execs ends in a live state", see c09_pick_nonempty); when [strict],
   forget_sent_state is only used while no byte has been released (class of finding F28 otherwise).
   Empty ranges (FIN-only frames) given to ack / loss are ignored since the fix of finding F29.
   Since the repair of finding F70 SendBuf::on_data_acked / may_loss_data act on the sent part
   [s, min e sent()) of the reported range only: reports about frames of a rejected 0-RTT packet (whose
   bytes are Pending again after forget_sent_state) no longer reach BufMap's `covered Pending parts`
   assertions (c09_report_total, c09_report_ack, c09_report_loss, c09_forget_then_reports).
   [colour_at m i] is the abstraction function. *)
From Coq Require Import List NArith ZArith.
From GQ Require Import Lib.Base Model.SendBuf Proofs.SendBuf.
Import ListNotations.
Local Open Scope N_scope.

(* ---- refinement of each BufMap operation to the pointwise colour specification ---- *)

Theorem c09_ref_ack : forall m s e m', WF m -> s < e -> ack_rcvd m s e = Some m' ->
  WF m' /\ size m' = size m /\ e <= size m /\
  (forall i, s <= i < e -> colour_at m i <> Some Pending) /\
  (forall i, colour_at m' i = if in_range s e i then Some Recved else colour_at m i).
Proof. exact p_c09_ref_ack. Qed.

Theorem c09_ref_loss : forall m s e m', WF m -> s < e -> may_loss m s e = Some m' ->
  WF m' /\ size m' = size m /\ e <= size m /\
  (forall i, s <= i < e -> colour_at m i <> Some Pending) /\
  (forall i, colour_at m' i = if in_range s e i then option_map lossf (colour_at m i) else colour_at m i).
Proof. exact p_c09_ref_loss. Qed.

Theorem c09_ref_pick : forall m pred flow win m' s e fr,
  WF m -> size m <= win -> (forall o a, pred o = Some a -> 1 <= a) ->
  pick m pred flow win = PickOk m' s e fr ->
  WF m' /\ size m' = size m /\ s < e /\ e <= size m /\
  (exists a, pred s = Some a /\ e - s <= a) /\
  (exists col, (col = Lost \/ (col = Pending /\ flow <> 0 /\ e - s <= flow)) /\ fr = is_pending col /\
               forall i, s <= i < e -> colour_at m i = Some col) /\
  (forall i, i < s -> colour_at m i = Some Flighting \/ colour_at m i = Some Recved) /\
  (forall i, colour_at m' i = if in_range s e i then Some Flighting else colour_at m i).
Proof. exact p_c09_ref_pick. Qed.

Theorem c09_ref_extend_to : forall m pos m', WF m -> extend_to m pos = Some m' ->
  WF m' /\ size m <= pos /\ size m' = pos /\
  (forall i, colour_at m' i = if i <? size m then colour_at m i else if i <? pos then Some Pending else None).
Proof. exact p_c09_ref_extend_to. Qed.

Theorem c09_ref_shift : forall m m2 pos, WF m -> shift m = (m2, pos) ->
  WF m2 /\ size m2 = size m /\ (forall i, colour_at m2 i = colour_at m i) /\
  pos <= size m /\ (forall i, i < pos -> colour_at m i = Some Recved) /\
  (pos < size m -> colour_at m pos <> Some Recved).
Proof. exact p_c09_ref_shift. Qed.

Theorem c09_ref_resend : forall m, WF m ->
  WF (resend_flighting m) /\ size (resend_flighting m) = size m /\
  (forall i, colour_at (resend_flighting m) i = option_map lossf (colour_at m i)).
Proof. exact p_c09_ref_resend. Qed.

(* the model's PV outcome of ack / loss arises only when a debug assertion of the Rust fails *)
Theorem c09_ref_ack_total : forall m s e, WF m -> s < e -> e <= size m ->
  (forall i, s <= i < e -> colour_at m i <> Some Pending) -> ack_rcvd m s e <> None.
Proof. exact p_c09_ack_total. Qed.

Theorem c09_ref_loss_total : forall m s e, WF m -> s < e -> e <= size m ->
  (forall i, s <= i < e -> colour_at m i <> Some Pending) -> may_loss m s e <> None.
Proof. exact p_c09_loss_total. Qed.

(* ---- over all operation lists ---- *)

Theorem c09_inv : forall c cap ops b outs, reach false c cap ops b outs ->
  WF (st b) /\ size (st b) = N.min (written b) (max_data b) /\ written b = total_written ops /\
  sb_execs c (Some (with_capacity cap)) ops = (Some b, outs).
Proof. exact p_c09_inv. Qed.

(* nothing unacknowledged is dropped: the deque holds content[base, written), base is the first byte
   that is not Recved, and written() counts every byte ever written *)
Theorem c09_retain : forall c cap ops b outs, reach true c cap ops b outs ->
  written b = total_written ops /\
  base b <= size (st b) /\ size (st b) <= written b /\
  (forall i, i < base b -> colour_at (st b) i = Some Recved) /\
  (base b < size (st b) -> colour_at (st b) (base b) <> Some Recved) /\
  (forall s e, base b <= s -> e <= written b -> data_of c b s e = slice c s (e - s)).
Proof. exact p_c09_retain. Qed.

Theorem c09_pick : forall c cap ops b outs pred flow b' s e fr d,
  reach true c cap ops b outs -> (forall o a, pred o = Some a -> 1 <= a) ->
  pick_up c b pred flow = UpOk b' s e fr d ->
  s < e /\ e <= N.min (written b) (max_data b) /\
  (exists a, pred s = Some a /\ e - s <= a) /\
  (exists col, (col = Lost \/ col = Pending) /\ (fr = true <-> col = Pending) /\
               forall i, s <= i < e -> colour_at (st b) i = Some col) /\
  (fr = true -> flow <> 0 /\ e - s <= flow) /\
  (forall i, i < s -> colour_at (st b) i = Some Flighting \/ colour_at (st b) i = Some Recved) /\
  (forall i, colour_at (st b') i = if in_range s e i then Some Flighting else colour_at (st b) i) /\
  d = slice c s (e - s).
Proof. exact p_c09_pick. Qed.

Theorem c09_fresh_once_suffix : forall c cap ops b outs, reach false c cap ops b outs ->
  sent b <= size (st b) /\ forall i, colour_at (st b) i = Some Pending <-> sent b <= i < size (st b).
Proof. exact p_c09_pending_suffix. Qed.

Theorem c09_fresh_once_no_repending : forall c cap ops b outs o b' out i col,
  reach false c cap ops b outs -> sb_exec c b o = (Some b', out) ->
  o <> SbForget -> colour_at (st b) i = Some col -> col <> Pending ->
  exists col', colour_at (st b') i = Some col' /\ col' <> Pending.
Proof. exact p_c09_no_repending. Qed.

Theorem c09_fresh_once_sum : forall c cap ops b outs, reach false c cap ops b outs ->
  fresh_sum 0 ops outs = sent b.
Proof. exact p_c09_fresh_sum. Qed.

Theorem c09_fresh_once_tiles : forall c cap ops b outs pred flow b' s e d,
  reach false c cap ops b outs -> (forall o a, pred o = Some a -> 1 <= a) ->
  pick_up c b pred flow = UpOk b' s e true d -> s = sent b /\ e = sent b' /\ s < e.
Proof. exact p_c09_fresh_at_sent. Qed.

Theorem c09_fresh_once_sent_mono : forall c cap ops b outs o b' out,
  reach false c cap ops b outs -> sb_exec c b o = (Some b', out) ->
  o <> SbForget -> sent b <= sent b'.
Proof. exact p_c09_sent_mono. Qed.

Theorem c09_lost_reoffered : forall c cap ops b outs i k flow,
  reach false c cap ops b outs -> colour_at (st b) i = Some Lost -> 1 <= k -> k < two62 ->
  exists b' s e d, pick_up c b (fun _ => Some k) flow = UpOk b' s e false d /\ s <= i /\ s < e /\
                   forall j, s <= j < e -> colour_at (st b) j = Some Lost.
Proof. exact p_c09_lost_reoffered. Qed.

Theorem c09_complete : forall c cap ops b outs, reach true c cap ops b outs ->
  (is_all_rcvd b = true <-> forall i, i < written b -> colour_at (st b) i = Some Recved).
Proof. exact p_c09_complete. Qed.

(* every successful pick has a non-empty range, over ALL operation lists (finding F29 is fixed:
   this was refuted by an empty loss range before) *)
Theorem c09_pick_nonempty : forall c cap ops b outs pred flow b' s e fr d,
  sb_execs c (Some (with_capacity cap)) ops = (Some b, outs) ->
  (forall o a, pred o = Some a -> 1 <= a) ->
  pick_up c b pred flow = UpOk b' s e fr d -> s < e.
Proof. exact p_c09_pick_nonempty. Qed.

Theorem c09_empty_range_noop : forall b s e, e <= s ->
  on_data_acked b s e = Some b /\ may_loss_data b s e = Some b.
Proof. exact p_c09_empty_range_noop. Qed.

Example c09_f29_regression :
  exists b outs, sb_execs content (Some (with_capacity 6)) [SbWrite 5; SbPick 5 5 100; SbLoss 5 5; SbAck 5 5; SbLoss 7 2] = (Some b, outs) /\
    runs (st b) = [(0, Flighting)] /\
    pick_up content b (fun _ => Some 3) 3 = UpErr true false false.
Proof. exact p_c09_f29_regression. Qed.

(* forget_sent_state at base = 0 (its only reachable use) stays in the strict class: retain / pick /
   complete keep holding afterwards, and the whole written data is still held *)
Theorem c09_forget_safe_at_base0 : forall c cap ops b outs,
  reach true c cap ops b outs -> base b = 0 ->
  reach true c cap (ops ++ [SbForget]) (forget_sent_state b) (outs ++ [OUnit]) /\
  written (forget_sent_state b) = written b /\ base (forget_sent_state b) = 0 /\
  (forall i, colour_at (st (forget_sent_state b)) i = None) /\
  (forall s e, e <= written b -> data_of c (forget_sent_state b) s e = slice c s (e - s)).
Proof. exact p_c09_forget_safe_at_base0. Qed.

(* ---- reports about data that is not in flight (finding F70, repaired) ---- *)

(* after EVERY operation list, an acknowledgement or loss report with ANY range succeeds: the debug
   assertions of BufMap::ack_rcvd / may_loss (range covers Pending, range beyond size) are unreachable
   through SendBuf *)
Theorem c09_report_total : forall c cap ops b outs s e, reach false c cap ops b outs ->
  on_data_acked b s e <> None /\ may_loss_data b s e <> None.
Proof. exact p_c09_report_total. Qed.

(* what a report does: exactly the sent part of the range changes colour; never-sent bytes stay Pending
   (they are still offered, as fresh data: c09_pick), nothing else moves *)
Theorem c09_report_ack : forall c cap ops b outs s e b', reach false c cap ops b outs ->
  on_data_acked b s e = Some b' ->
  written b' = written b /\ sent b' = sent b /\ max_data b' = max_data b /\ size (st b') = size (st b) /\
  (forall i, colour_at (st b') i = if in_range s (N.min e (sent b)) i then Some Recved else colour_at (st b) i).
Proof. exact p_c09_report_ack. Qed.

Theorem c09_report_loss : forall c cap ops b outs s e b', reach false c cap ops b outs ->
  may_loss_data b s e = Some b' ->
  written b' = written b /\ sent b' = sent b /\ max_data b' = max_data b /\ size (st b') = size (st b) /\
  base b' = base b /\ retained b' = retained b /\
  (forall i, colour_at (st b') i = if in_range s (N.min e (sent b)) i then option_map lossf (colour_at (st b) i) else colour_at (st b) i).
Proof. exact p_c09_report_loss. Qed.

Theorem c09_stale_report_noop : forall b s e, sent b <= s ->
  on_data_acked b s e = Some b /\ may_loss_data b s e = Some b.
Proof. exact p_c09_stale_report_noop. Qed.

(* 0-RTT rejection = forget_sent_state at base 0 followed by the window of the real handshake: the state
   stays in the strict class, nothing counts as sent, and every report (loss or acknowledgement of a frame
   that travelled in a rejected 0-RTT packet) leaves the buffer exactly as it is *)
Theorem c09_forget_then_reports : forall c cap ops b outs mx b1,
  reach true c cap ops b outs -> base b = 0 -> extend (forget_sent_state b) mx = Some b1 ->
  reach true c cap (ops ++ [SbForget; SbExtend mx]) b1 (outs ++ [OUnit; OUnit]) /\
  sent b1 = 0 /\ written b1 = written b /\ base b1 = 0 /\
  (forall s e, on_data_acked b1 s e = Some b1 /\ may_loss_data b1 s e = Some b1).
Proof. exact p_c09_forget_then_reports. Qed.

Example c09_f70_regression :
  exists b outs, sb_execs content (Some (with_capacity 10))
      [SbWrite 10; SbPick 6 6 100; SbForget; SbExtend 8; SbLoss 0 6; SbAck 0 6; SbPick 3 3 100; SbLoss 0 6] = (Some b, outs) /\
    runs (st b) = [(0, Lost); (3, Pending)] /\ sent b = 3 /\ base b = 0 /\ retained b = 10 /\
    (exists b', on_data_acked b 0 6 = Some b' /\ runs (st b') = [(3, Pending)] /\ base b' = 3 /\ retained b' = 7 /\
       exists b'' d, pick_up content b' (fun _ => Some 10) 10 = UpOk b'' 3 8 true d /\ d = slice content 3 5).
Proof. exact p_c09_f70_regression. Qed.

(* ---- outside the strict class the data statement is false (finding F28, latent) ---- *)

Theorem c09_pick_data_refuted :
  exists ops b outs b' d, sb_execs content (Some (with_capacity 4)) ops = (Some b, outs) /\
    pick_up content b (fun _ => Some 4) 4 = UpOk b' 0 4 true d /\ d <> slice content 0 4 /\ lenN d = 2.
Proof. exact p_c09_pick_data_refuted. Qed.

(* non-vacuity: a history with partial picks, a flow-limited pick, loss, ack after loss, a repeated
   and a misaligned ack, loss after ack, empty ranges, resend_flighting, a window extension and a refused pick is
   in the strict class, ends with everything acknowledged, and its fresh lengths add up to sent() *)
Example c09_nonvacuous :
  let ops := [SbWrite 12; SbPick 4 8 100; SbPick 3 2 100; SbLoss 0 4; SbAck 1 3; SbAck 1 3; SbLoss 2 5;
              SbPick 9 9 100; SbPick 1 0 100; SbResend; SbPick 2 9 100; SbExtend 20; SbPick 20 20 100;
              SbPick 20 20 100; SbPick 20 20 100; SbPick 20 20 100; SbAck 3 12; SbLoss 12 12; SbAck 7 7; SbLoss 0 2; SbAck 0 1; SbWrite 2; SbPick 7 7 100;
              SbAck 0 14] in
  match run_ok true content (with_capacity 10) ops with
  | Some (b, outs) =>
      is_all_rcvd b = true /\ written b = 14 /\ sent b = 14 /\ base b = 14 /\ fresh_sum 0 ops outs = 14 /\
      runs (st b) = []
  | None => False
  end.
Proof. vm_compute. repeat split. Qed.

(* non-vacuity of the rejection path: data sent in 0-RTT, rejection, stale loss / acknowledgement reports of the
   0-RTT frame before and after part of the data was sent again; the history is in the strict class and ends with
   everything acknowledged, the fresh lengths since the rejection add up to sent() *)
Example c09_nonvacuous_rejection :
  let ops := [SbWrite 10; SbPick 6 6 100; SbForget; SbExtend 8; SbLoss 0 6; SbAck 0 6; SbPick 3 3 100; SbLoss 0 6;
              SbPick 9 9 100; SbPick 9 9 100; SbAck 2 6; SbExtend 10; SbPick 9 9 100; SbAck 0 10] in
  match run_ok true content (with_capacity 10) ops with
  | Some (b, outs) =>
      is_all_rcvd b = true /\ written b = 10 /\ sent b = 10 /\ base b = 10 /\ fresh_sum 0 ops outs = 10 /\
      runs (st b) = []
  | None => False
  end.
Proof. vm_compute. repeat split. Qed.

Print Assumptions c09_ref_ack.
Print Assumptions c09_ref_loss.
Print Assumptions c09_ref_pick.
Print Assumptions c09_ref_extend_to.
Print Assumptions c09_ref_shift.
Print Assumptions c09_ref_resend.
Print Assumptions c09_ref_ack_total.
Print Assumptions c09_ref_loss_total.
Print Assumptions c09_inv.
Print Assumptions c09_retain.
Print Assumptions c09_pick.
Print Assumptions c09_fresh_once_suffix.
Print Assumptions c09_fresh_once_no_repending.
Print Assumptions c09_fresh_once_sum.
Print Assumptions c09_fresh_once_tiles.
Print Assumptions c09_fresh_once_sent_mono.
Print Assumptions c09_lost_reoffered.
Print Assumptions c09_complete.
Print Assumptions c09_pick_nonempty.
Print Assumptions c09_empty_range_noop.
Print Assumptions c09_f29_regression.
Print Assumptions c09_forget_safe_at_base0.
Print Assumptions c09_report_total.
Print Assumptions c09_report_ack.
Print Assumptions c09_report_loss.
Print Assumptions c09_stale_report_noop.
Print Assumptions c09_forget_then_reports.
Print Assumptions c09_f70_regression.
Print Assumptions c09_pick_data_refuted.
Print Assumptions c09_nonvacuous.
Print Assumptions c09_nonvacuous_rejection.
