(* Proofs about Model/ConnEnd.v (C17, stream `connend`): once terminated() has resolved on an endpoint
   no application operation of that endpoint stays pending past the next observation, whatever the
   history; every completion on a terminated endpoint carries the terminating error; an endpoint that
   terminated stays terminated. *)
From Coq Require Import List NArith ZArith Bool Lia.
From GQ Require Import Model.ConnEnd.
Import ListNotations.
Local Open Scope N_scope.

Lemma sweep_pending : forall a b l t s k,
  In (t, (s, k)) (snd (sweep a b l)) ->
  In (t, (s, k)) l /\ verdict a (e_now a) s k = None /\ verdict b (e_now b) s k = None.
Proof.
  induction l as [|[t0 [s0 k0]] r IH]; intros t s k H; cbn [sweep] in H.
  - destruct H.
  - destruct (sweep a b r) as [o p] eqn:E. cbn [snd] in IH.
    destruct (verdict a (e_now a) s0 k0) eqn:VA.
    + cbn [snd] in H. destruct (IH _ _ _ H) as (I & X & Y). split; [right; exact I|split; assumption].
    + destruct (verdict b (e_now b) s0 k0) eqn:VB.
      * cbn [snd] in H. destruct (IH _ _ _ H) as (I & X & Y). split; [right; exact I|split; assumption].
      * cbn [snd] in H. destruct H as [H|H].
        -- inversion H; subst. split; [left; reflexivity|split; assumption].
        -- destruct (IH _ _ _ H) as (I & X & Y). split; [right; exact I|split; assumption].
Qed.

Lemma verdict_dead : forall m t s k, dead_at m s t = true -> verdict m t s k = Some 2%Z.
Proof. intros. unfold verdict. rewrite H. reflexivity. Qed.

(* after ANY observation point (ADVANCE), in ANY state: an operation that is still pending belongs to an
   endpoint that has not terminated - i.e. every operation pending on a terminated endpoint, and every
   operation started after the termination, has completed *)
Lemma p_c17_end_no_pending : forall m ms t s k,
  let m' := fst (advance m ms) in
  In (t, (s, k)) (e_tasks m') -> dead_at m' s (e_now m') = false.
Proof.
  intros m ms t s k. unfold advance.
  set (now' := e_now m + N.min ms 100000). set (hs' := _ || _). set (b := with_time m now' hs').
  destruct (sweep m b (e_tasks m)) as [o p] eqn:E. cbn [fst]. cbn [e_tasks with_tasks]. intros H.
  assert (H' : In (t, (s, k)) (snd (sweep m b (e_tasks m)))) by (rewrite E; exact H).
  destruct (sweep_pending _ _ _ _ _ _ H') as (_ & _ & VB).
  destruct (dead_at (with_tasks b p) s (e_now (with_tasks b p))) eqn:D; [|reflexivity].
  assert (D' : dead_at b s (e_now b) = true) by exact D.
  rewrite (verdict_dead _ _ _ k D') in VB. discriminate.
Qed.

(* every completion reported for an endpoint that had terminated at the earlier instant carries the
   terminating error (code 2); Ok is reported only where the endpoint was alive *)
Fixpoint codes_ok (a : ce) (l : list (N * (N * N))) (o : list Z) : Prop :=
  match l with
  | [] => o = []
  | (t, (s, k)) :: r =>
    match o with
    | t' :: c :: o' =>
      (t' = Z.of_N t /\ (dead_at a s (e_now a) = true -> c = 2%Z) /\ (c = 1%Z \/ c = 2%Z) /\ codes_ok a r o')
      \/ codes_ok a r o
    | _ => codes_ok a r o
    end
  end.

Lemma verdict_codes : forall m t s k c, verdict m t s k = Some c -> c = 1%Z \/ c = 2%Z.
Proof.
  intros m t s k c H. unfold verdict in H. destruct (dead_at m s t); [inversion H; right; reflexivity|].
  destruct (e_hs m && completes_at_handshake k); inversion H. left; reflexivity.
Qed.

Lemma codes_ok_nil : forall a l, codes_ok a l [].
Proof. induction l as [|[t [s k]] r IH]; cbn; [reflexivity|exact IH]. Qed.

Lemma dead_monotone_time : forall m s t1 t2, t1 <= t2 -> dead_at m s t1 = true -> dead_at m s t2 = true.
Proof.
  intros m s t1 t2 L H. unfold dead_at in *. destruct (tget (e_term m) s); [|discriminate].
  apply N.leb_le in H. apply N.leb_le. lia.
Qed.

Lemma p_sweep_codes : forall a b l, e_term b = e_term a -> e_now a <= e_now b ->
  codes_ok a l (fst (sweep a b l)).
Proof.
  intros a b l HT HN. induction l as [|[t [s k]] r IH]; cbn [sweep]; [reflexivity|].
  destruct (sweep a b r) as [o p] eqn:E. cbn [fst] in IH.
  destruct (verdict a (e_now a) s k) eqn:VA.
  - cbn [fst codes_ok]. left. split; [reflexivity|]. split.
    + intros D. rewrite (verdict_dead _ _ _ k D) in VA. inversion VA. reflexivity.
    + split; [eapply verdict_codes; exact VA|exact IH].
  - destruct (verdict b (e_now b) s k) eqn:VB.
    + cbn [fst codes_ok]. left. split; [reflexivity|]. split.
      * intros D. assert (D2 : dead_at b s (e_now b) = true).
        { unfold dead_at in *. rewrite HT. destruct (tget (e_term a) s); [|discriminate].
          apply N.leb_le in D. apply N.leb_le. lia. }
        rewrite (verdict_dead _ _ _ k D2) in VB. inversion VB. reflexivity.
      * split; [eapply verdict_codes; exact VB|exact IH].
    + cbn [fst codes_ok]. destruct o as [|x [|y o']]; try exact IH. right. exact IH.
Qed.

(* termination is for ever: no operation of the stream revives an endpoint *)
Lemma omin_le : forall o t x, omin o t = Some x -> x <= t.
Proof. intros o t x H. unfold omin in H. destruct o; inversion H; lia. Qed.
Lemma omin_keeps : forall o t x, o = Some x -> exists y, omin o t = Some y /\ y <= x.
Proof. intros o t x H. subst. cbn. eexists; split; [reflexivity|lia]. Qed.

Definition term_le (p q : option N * option N) : Prop :=
  forall s x, tget p s = Some x -> exists y, tget q s = Some y /\ y <= x.

Lemma term_le_refl : forall p, term_le p p.
Proof. intros p s x H. exists x. split; [exact H|lia]. Qed.

Lemma tget_tset : forall p s s' v, tget (tset p s v) s' = if (s' =? 0) then (if s =? 0 then v else fst p) else (if s =? 0 then snd p else v).
Proof. intros. unfold tget, tset. destruct (s =? 0), (s' =? 0); reflexivity. Qed.

Lemma term_le_tset_omin : forall p s t, term_le p (tset p s (omin (tget p s) t)).
Proof.
  intros p s t s' x H. rewrite tget_tset. unfold tget in *.
  destruct (s' =? 0) eqn:A, (s =? 0) eqn:B; try (exists x; split; [exact H|lia]).
  - destruct (omin_keeps _ t _ H) as [y [E L]]. exists y. split; assumption.
  - destruct (omin_keeps _ t _ H) as [y [E L]]. exists y. split; assumption.
Qed.

Lemma term_le_trans : forall p q r, term_le p q -> term_le q r -> term_le p r.
Proof.
  intros p q r A B s x H. destruct (A s x H) as [y [E L]]. destruct (B s y E) as [z [E2 L2]].
  exists z. split; [exact E2|lia].
Qed.

Lemma step_term_now : forall m idx tag a,
  term_le (e_term m) (e_term (fst (ce_step m idx tag a))) /\ e_now m <= e_now (fst (ce_step m idx tag a)).
Proof.
  intros m idx tag a. unfold ce_step.
  destruct tag as [|[[p|p|]|[p|p|]|]]; try (split; [apply term_le_refl|apply N.le_refl]);
    destruct a as [|x [|y [|z r]]]; try (split; [apply term_le_refl|apply N.le_refl]).
  - (* 3 close *) unfold close. destruct (negb _); [split; [apply term_le_refl|apply N.le_refl]|].
    destruct (dead_at _ _ _); [split; [apply term_le_refl|apply N.le_refl]|]. cbn [fst e_term e_now with_term].
    split; [|apply N.le_refl]. eapply term_le_trans; apply term_le_tset_omin.
  - (* 2 advance *) unfold advance. destruct (sweep _ _ _) as [o p]. cbn [fst e_term e_now with_tasks with_time].
    split; [apply term_le_refl|lia].
  - (* 1 start *) unfold start. destruct (negb _); [split; [apply term_le_refl|apply N.le_refl]|].
    destruct (_ && _); [split; [apply term_le_refl|apply N.le_refl]|].
    destruct (_ || _); split; try apply term_le_refl; apply N.le_refl.
Qed.

Lemma p_c17_end_forever : forall ops m idx s,
  dead_at m s (e_now m) = true -> dead_at (ce_exec m idx ops) s (e_now (ce_exec m idx ops)) = true.
Proof.
  induction ops as [|[t a] r IH]; intros m idx s H; [exact H|]. cbn [ce_exec]. apply IH.
  destruct (step_term_now m idx t a) as [TL NL]. unfold dead_at in *.
  destruct (tget (e_term m) s) as [x|] eqn:E; [|discriminate].
  destruct (TL s x E) as [y [E2 L]]. rewrite E2. apply N.leb_le in H. apply N.leb_le. lia.
Qed.

(* the statement over whole histories: any configuration, ANY history of operations, then an observation
   point: no operation is left pending on an endpoint whose terminated() has resolved; and it stays
   resolved for ever after *)
Lemma p_c17_end_all : forall cfg ops ms t s k,
  let m := ce_exec (ce_init cfg) 0 ops in
  let m' := fst (advance m ms) in
  (In (t, (s, k)) (e_tasks m') -> dead_at m' s (e_now m') = false) /\
  (forall later idx, dead_at m' s (e_now m') = true ->
     dead_at (ce_exec m' idx later) s (e_now (ce_exec m' idx later)) = true).
Proof.
  intros cfg ops ms t s k m m'. split; [apply p_c17_end_no_pending|].
  intros later idx H. apply p_c17_end_forever. exact H.
Qed.
