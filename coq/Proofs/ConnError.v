(* Proofs about Model/ConnError.v: what on_conn_error wakes, what it leaves registered, and what
   every later operation answers. *)
From Coq Require Import List NArith ZArith Bool Lia.
From GQ Require Import Model.ConnError.
Import ListNotations.
Local Open Scope N_scope.

(* ---------------------------------------------------------------- states before / after the error *)
Definition Clean (m : cm) : Prop :=
  c_out_err m = None /\ c_dgin_err m = None /\ c_dgout_err m = None /\ c_perr m = None /\
  Forall (fun ks => sn_err (snd ks) = None) (c_snd m) /\
  Forall (fun kr => rc_err (snd kr) = None) (c_rcv m).

Definition snd_ok (e : err) (s : sender) : Prop :=
  (sn_live s = true -> sn_err s = Some e) /\ (forall e', sn_err s = Some e' -> e' = e).
Definition rcv_ok (e : err) (r : recver) : Prop :=
  (rc_live r = true -> rc_err r = Some e) /\ (forall e', rc_err r = Some e' -> e' = e).

Definition Poisoned (e : err) (m : cm) : Prop :=
  c_out_err m = Some e /\ c_dgin_err m = Some e /\ c_dgout_err m = Some e /\ c_perr m = Some e /\
  Forall (fun ks => snd_ok e (snd ks)) (c_snd m) /\
  Forall (fun kr => rcv_ok e (snd kr)) (c_rcv m).

(* ---------------------------------------------------------------- the fan-out, component by component *)
Lemma ds_spec : forall e m, c_out_err m = None ->
  let m' := ds_conn_error e m in
  c_snd m' = fst (map_err (snd_conn_error e) (c_snd m)) /\
  c_rcv m' = fst (map_err (rcv_conn_error e) (c_rcv m)) /\
  c_out_err m' = Some e /\ c_wbi m' = None /\ c_wuni m' = None /\
  c_wsid m' = (if c_fix23 m then ([], []) else c_wsid m) /\
  c_woken m' = (c_woken m ++ (snd (map_err (snd_conn_error e) (c_snd m)) ++ snd (map_err (rcv_conn_error e) (c_rcv m)) ++
                              opt_list (c_wbi m) ++ opt_list (c_wuni m))) ++
               (if c_fix23 m then fst (c_wsid m) ++ snd (c_wsid m) else []) /\
  c_wparams m' = c_wparams m /\ c_perr m' = c_perr m /\ c_wdg m' = c_wdg m /\
  c_dgin_err m' = c_dgin_err m /\ c_dgout_err m' = c_dgout_err m.
Proof.
  intros e m H. unfold ds_conn_error. rewrite H.
  destruct (map_err (snd_conn_error e) (c_snd m)) as [s' w1].
  destruct (map_err (rcv_conn_error e) (c_rcv m)) as [r' w2].
  destruct (c_fix23 m); cbn; rewrite ?app_nil_r; repeat split; reflexivity.
Qed.

Lemma dg_spec : forall e m, c_dgin_err m = None -> c_dgout_err m = None ->
  let m' := dg_conn_error e m in
  c_snd m' = c_snd m /\ c_rcv m' = c_rcv m /\ c_out_err m' = c_out_err m /\
  c_wbi m' = c_wbi m /\ c_wuni m' = c_wuni m /\ c_wsid m' = c_wsid m /\
  c_woken m' = c_woken m ++ opt_list (c_wdg m) /\
  c_wparams m' = c_wparams m /\ c_perr m' = c_perr m /\ c_wdg m' = None /\
  c_dgin_err m' = Some e /\ c_dgout_err m' = Some e.
Proof.
  intros e m H1 H2. unfold dg_conn_error. rewrite H1.
  destruct (c_wdg m); cbn; rewrite ?H2; cbn; rewrite ?app_nil_r; repeat split; reflexivity.
Qed.

Lemma params_spec : forall e m, c_perr m = None ->
  let m' := params_conn_error e m in
  c_snd m' = c_snd m /\ c_rcv m' = c_rcv m /\ c_out_err m' = c_out_err m /\
  c_wbi m' = c_wbi m /\ c_wuni m' = c_wuni m /\ c_wsid m' = c_wsid m /\
  c_woken m' = c_woken m ++ c_wparams m /\
  c_wparams m' = [] /\ c_perr m' = Some e /\ c_wdg m' = c_wdg m /\
  c_dgin_err m' = c_dgin_err m /\ c_dgout_err m' = c_dgout_err m.
Proof.
  intros e m H. unfold params_conn_error. rewrite H. cbn. repeat split; reflexivity.
Qed.

(* ---------------------------------------------------------------- senders / receivers one by one *)
Lemma map_err_cons : forall A (f : A -> A * list tid) k v t,
  map_err f ((k, v) :: t) = ((k, fst (f v)) :: fst (map_err f t), snd (f v) ++ snd (map_err f t)).
Proof. intros. cbn [map_err]. destruct (f v). destruct (map_err f t). reflexivity. Qed.

Lemma snd_ce_woken : forall e s t, In t (snd_registered s) -> In t (snd (snd_conn_error e s)).
Proof.
  intros e s t H. unfold snd_registered in H. unfold snd_conn_error.
  destruct (in_set s); [|contradiction]. destruct (sn_live s); [|contradiction].
  destruct (sn_err s); [contradiction|]. cbn in *. exact H.
Qed.
Lemma snd_ce_cleared : forall e s, snd_registered (fst (snd_conn_error e s)) = [].
Proof.
  intros e s. unfold snd_conn_error, snd_registered.
  destruct (in_set s) eqn:I; cbn [fst]; [|rewrite I; reflexivity].
  destruct (sn_err s) eqn:E; cbn [fst]; [rewrite I, E; destruct (sn_live s); reflexivity|].
  destruct (sn_live s) eqn:L; cbn [fst].
  - unfold in_set, sn_live. cbn. destruct (sn_st s); reflexivity.
  - rewrite I, L. reflexivity.
Qed.
Lemma snd_ce_ok : forall e s, sn_err s = None -> snd_ok e (fst (snd_conn_error e s)).
Proof.
  intros e s E. unfold snd_conn_error, snd_ok. rewrite E.
  destruct (in_set s) eqn:I; cbn [fst].
  - destruct (sn_live s) eqn:L; cbn [fst].
    + unfold sn_live. cbn. split; [reflexivity|]. intros e' H. inversion H. reflexivity.
    + rewrite L, E. split; intros; discriminate.
  - unfold in_set in I. unfold sn_live. destruct (sn_st s); try discriminate. rewrite E. split; intros; discriminate.
Qed.

Lemma rcv_ce_woken : forall e r t, In t (rcv_registered r) -> In t (snd (rcv_conn_error e r)).
Proof.
  intros e r t H. unfold rcv_registered in H. unfold rcv_conn_error.
  destruct (rc_live r); [|contradiction]. destruct (rc_err r); [contradiction|]. cbn in *. exact H.
Qed.
Lemma rcv_ce_cleared : forall e r, rcv_registered (fst (rcv_conn_error e r)) = [].
Proof.
  intros e r. unfold rcv_conn_error, rcv_registered.
  destruct (rc_err r) eqn:E; cbn [fst]; [rewrite E; destruct (rc_live r); reflexivity|].
  destruct (rc_live r) eqn:L; cbn [fst].
  - unfold rc_live. cbn. destruct (rc_ph r); reflexivity.
  - rewrite L. reflexivity.
Qed.
Lemma rcv_ce_ok : forall e r, rc_err r = None -> rcv_ok e (fst (rcv_conn_error e r)).
Proof.
  intros e r E. unfold rcv_conn_error, rcv_ok. rewrite E.
  destruct (rc_live r) eqn:L; cbn [fst].
  - unfold rc_live. cbn. split; [reflexivity|]. intros e' H. inversion H. reflexivity.
  - rewrite L, E. split; intros; discriminate.
Qed.

Section MapErr.
  Variable A : Type.
  Variable f : A -> A * list tid.
  Variable reg : A -> list tid.
  Lemma map_err_woken : (forall v t, In t (reg v) -> In t (snd (f v))) ->
    forall l t, In t (flat_map (fun x => reg (snd x)) l) -> In t (snd (map_err f l)).
  Proof.
    intros Hf. induction l as [|[k v] r IH]; intros t H; [contradiction|].
    rewrite map_err_cons. cbn [snd flat_map] in *. apply in_app_or in H. apply in_or_app.
    destruct H; [left; apply Hf; exact H|right; apply IH; exact H].
  Qed.
  Lemma map_err_cleared : (forall v, reg (fst (f v)) = []) ->
    forall l, flat_map (fun x => reg (snd x)) (fst (map_err f l)) = [].
  Proof.
    intros Hf. induction l as [|[k v] r IH]; [reflexivity|].
    rewrite map_err_cons. cbn [fst snd flat_map]. rewrite Hf, IH. reflexivity.
  Qed.
  Lemma map_err_forall : forall (P Q : A -> Prop), (forall v, P v -> Q (fst (f v))) ->
    forall l, Forall (fun kv => P (snd kv)) l -> Forall (fun kv => Q (snd kv)) (fst (map_err f l)).
  Proof.
    intros P Q Hf. induction l as [|[k v] r IH]; intros H; [constructor|].
    rewrite map_err_cons. cbn [fst]. inversion H; subst. constructor; [apply Hf; assumption|apply IH; assumption].
  Qed.
End MapErr.

(* ---------------------------------------------------------------- c17_release, part 1: wakes *)
Lemma conn_error_woken_but_sid : forall e m t, Clean m ->
  In t (registered_but_sid m) -> In t (c_woken (conn_error e m)).
Proof.
  intros e m t (Ho & Hi & Hg & Hp & _ & _) H. unfold conn_error.
  pose proof (ds_spec e m Ho) as D. cbv zeta in D.
  destruct D as (D1 & D2 & D3 & D4 & D5 & D6 & D7 & D8 & D9 & D10 & D11 & D12).
  pose proof (dg_spec e (ds_conn_error e m) ltac:(congruence) ltac:(congruence)) as G. cbv zeta in G.
  destruct G as (G1 & G2 & G3 & G4 & G5 & G6 & G7 & G8 & G9 & G10 & G11 & G12).
  pose proof (params_spec e (dg_conn_error e (ds_conn_error e m)) ltac:(congruence)) as P. cbv zeta in P.
  destruct P as (P1 & P2 & P3 & P4 & P5 & P6 & P7 & P8 & P9 & P10 & P11 & P12).
  rewrite P7, G7, G8, D7, D8, D10.
  unfold registered_but_sid in H.
  repeat (apply in_app_or in H; destruct H as [H|H]).
  - apply in_or_app; left. apply in_or_app; left. apply in_or_app; left. apply in_or_app; right.
    apply in_or_app; left. apply (map_err_woken _ _ snd_registered (snd_ce_woken e)). exact H.
  - apply in_or_app; left. apply in_or_app; left. apply in_or_app; left. apply in_or_app; right.
    apply in_or_app; right. apply in_or_app; left.
    apply (map_err_woken _ _ rcv_registered (rcv_ce_woken e)). exact H.
  - apply in_or_app; left. apply in_or_app; left. apply in_or_app; left. apply in_or_app; right.
    apply in_or_app; right. apply in_or_app; right. apply in_or_app; left. exact H.
  - apply in_or_app; left. apply in_or_app; left. apply in_or_app; left. apply in_or_app; right.
    apply in_or_app; right. apply in_or_app; right. apply in_or_app; right. exact H.
  - apply in_or_app; right. exact H.
  - apply in_or_app; left. apply in_or_app; right. exact H.
Qed.

Lemma conn_error_woken : forall e m t, Clean m -> c_fix23 m = true ->
  In t (registered m) -> In t (c_woken (conn_error e m)).
Proof.
  intros e m t C F H.
  assert (S : In t (registered_but_sid m) \/ In t (fst (c_wsid m) ++ snd (c_wsid m))).
  { unfold registered in H. unfold registered_but_sid.
    repeat (apply in_app_or in H; destruct H as [H|H]).
    - left. apply in_or_app; left. exact H.
    - left. apply in_or_app; right. apply in_or_app; left. exact H.
    - left. apply in_or_app; right. apply in_or_app; right. apply in_or_app; left. exact H.
    - left. do 3 (apply in_or_app; right). apply in_or_app; left. exact H.
    - right. apply in_or_app; left. exact H.
    - right. apply in_or_app; right. exact H.
    - left. do 4 (apply in_or_app; right). apply in_or_app; left. exact H.
    - left. do 5 (apply in_or_app; right). exact H. }
  destruct S as [S|S]; [apply conn_error_woken_but_sid; assumption|].
  destruct C as (Ho & Hi & Hg & Hp & _ & _). unfold conn_error.
  pose proof (ds_spec e m Ho) as D. cbv zeta in D.
  destruct D as (D1 & D2 & D3 & D4 & D5 & D6 & D7 & D8 & D9 & D10 & D11 & D12).
  pose proof (dg_spec e (ds_conn_error e m) ltac:(congruence) ltac:(congruence)) as G. cbv zeta in G.
  destruct G as (G1 & G2 & G3 & G4 & G5 & G6 & G7 & G8 & G9 & G10 & G11 & G12).
  pose proof (params_spec e (dg_conn_error e (ds_conn_error e m)) ltac:(congruence)) as P. cbv zeta in P.
  destruct P as (P1 & P2 & P3 & P4 & P5 & P6 & P7 & P8 & P9 & P10 & P11 & P12).
  rewrite P7, G7, D7, F.
  apply in_or_app; left. apply in_or_app; left. apply in_or_app; right. exact S.
Qed.

(* part 2: no slot keeps a sleeper *)
Lemma conn_error_cleared : forall e m, Clean m -> c_fix23 m = true -> registered (conn_error e m) = [].
Proof.
  intros e m (Ho & Hi & Hg & Hp & _ & _) F. unfold conn_error.
  pose proof (ds_spec e m Ho) as D. cbv zeta in D.
  destruct D as (D1 & D2 & D3 & D4 & D5 & D6 & D7 & D8 & D9 & D10 & D11 & D12).
  pose proof (dg_spec e (ds_conn_error e m) ltac:(congruence) ltac:(congruence)) as G. cbv zeta in G.
  destruct G as (G1 & G2 & G3 & G4 & G5 & G6 & G7 & G8 & G9 & G10 & G11 & G12).
  pose proof (params_spec e (dg_conn_error e (ds_conn_error e m)) ltac:(congruence)) as P. cbv zeta in P.
  destruct P as (P1 & P2 & P3 & P4 & P5 & P6 & P7 & P8 & P9 & P10 & P11 & P12).
  unfold registered. rewrite P1, P2, P4, P5, P6, P8, P10, G1, G2, G4, G5, G6, G10, D1, D2, D4, D5, D6, F.
  rewrite (map_err_cleared _ _ snd_registered (snd_ce_cleared e)).
  rewrite (map_err_cleared _ _ rcv_registered (rcv_ce_cleared e)). reflexivity.
Qed.

(* part 3: everything is poisoned with e *)
Lemma conn_error_poisoned : forall e m, Clean m -> Poisoned e (conn_error e m).
Proof.
  intros e m (Ho & Hi & Hg & Hp & Hs & Hr). unfold conn_error.
  pose proof (ds_spec e m Ho) as D. cbv zeta in D.
  destruct D as (D1 & D2 & D3 & D4 & D5 & D6 & D7 & D8 & D9 & D10 & D11 & D12).
  pose proof (dg_spec e (ds_conn_error e m) ltac:(congruence) ltac:(congruence)) as G. cbv zeta in G.
  destruct G as (G1 & G2 & G3 & G4 & G5 & G6 & G7 & G8 & G9 & G10 & G11 & G12).
  pose proof (params_spec e (dg_conn_error e (ds_conn_error e m)) ltac:(congruence)) as P. cbv zeta in P.
  destruct P as (P1 & P2 & P3 & P4 & P5 & P6 & P7 & P8 & P9 & P10 & P11 & P12).
  unfold Poisoned. rewrite P1, P2, P3, P9, P11, P12, G1, G2, G3, G11, G12, D1, D2, D3.
  repeat split; auto.
  - apply (map_err_forall _ _ (fun s => sn_err s = None) (snd_ok e)); [apply snd_ce_ok|exact Hs].
  - apply (map_err_forall _ _ (fun r => rc_err r = None) (rcv_ok e)); [apply rcv_ce_ok|exact Hr].
Qed.

(* a second close (the other side's, racing) changes nothing *)
Lemma conn_error_again : forall e e2 m, Poisoned e m -> conn_error e2 m = m.
Proof.
  intros e e2 m (Ho & Hi & Hg & Hp & _ & _). unfold conn_error, ds_conn_error. rewrite Ho.
  unfold dg_conn_error. rewrite Hi, Hg. unfold params_conn_error. rewrite Hp. reflexivity.
Qed.

(* ---------------------------------------------------------------- later operations *)
Lemma alookup_In : forall A (l : list (N * A)) k v, alookup l k = Some v -> exists k', In (k', v) l.
Proof.
  induction l as [|[k' v'] t IH]; intros k v H; [discriminate|]. cbn in H.
  destruct (k' =? k); [inversion H; subst; exists k'; left; reflexivity|].
  destruct (IH _ _ H) as [k2 H2]. exists k2. right. exact H2.
Qed.

Lemma Forall_aupdate : forall A (P : A -> Prop) (l : list (N * A)) k v,
  Forall (fun kv => P (snd kv)) l -> P v -> Forall (fun kv => P (snd kv)) (aupdate l k v).
Proof.
  induction l as [|[k' v'] t IH]; intros k v H Hv; [constructor|]. cbn.
  inversion H; subst. destruct (k' =? k); constructor; auto.
Qed.

Lemma handed_sender_ok : forall e m sid s, Poisoned e m -> handed_sender m sid = Some s -> snd_ok e s.
Proof.
  intros e m sid s (_ & _ & _ & _ & Hs & _) H. unfold handed_sender in H.
  destruct (alookup (c_snd m) sid) as [s0|] eqn:E; [|discriminate].
  destruct (sn_handed s0); [|discriminate]. inversion H; subst.
  destruct (alookup_In _ _ _ _ E) as [k' Hin]. rewrite Forall_forall in Hs. apply (Hs _ Hin).
Qed.
Lemma handed_recver_ok : forall e m sid r, Poisoned e m -> handed_recver m sid = Some r -> rcv_ok e r.
Proof.
  intros e m sid r (_ & _ & _ & _ & _ & Hr) H. unfold handed_recver in H.
  destruct (alookup (c_rcv m) sid) as [r0|] eqn:E; [|discriminate].
  destruct (rc_handed r0); [|discriminate]. inversion H; subst.
  destruct (alookup_In _ _ _ _ E) as [k' Hin]. rewrite Forall_forall in Hr. apply (Hr _ Hin).
Qed.

(* what an application operation answers in a poisoned connection; sent-side state is untouched,
   no receive buffer grows, and the connection stays poisoned *)
Definition total_rcvd (m : cm) : list (N * N) := map (fun kr => (fst kr, rc_rcvd (snd kr))) (c_rcv m).

Lemma aupdate_rcvd : forall (l : list (N * recver)) k r0 r,
  alookup l k = Some r0 -> rc_rcvd r = rc_rcvd r0 ->
  map (fun kr => (fst kr, rc_rcvd (snd kr))) (aupdate l k r) = map (fun kr => (fst kr, rc_rcvd (snd kr))) l.
Proof.
  induction l as [|[k' v'] t IH]; intros k r0 r H E; [reflexivity|]. cbn in *.
  destruct (N.eqb_spec k' k).
  - inversion H; subst. cbn. rewrite E. reflexivity.
  - cbn. rewrite (IH _ _ _ H E). reflexivity.
Qed.

Lemma handed_recver_lookup : forall m sid r, handed_recver m sid = Some r -> alookup (c_rcv m) sid = Some r.
Proof.
  intros m sid r H. unfold handed_recver in H. destruct (alookup (c_rcv m) sid) as [r0|]; [|discriminate].
  destruct (rc_handed r0); inversion H; reflexivity.
Qed.

Lemma poisoned_poll : forall e m t k, Poisoned e m ->
  let m' := fst (poll m t k) in let code := fst (snd (poll m t k)) in let val := snd (snd (poll m t k)) in
  code <> 0%Z /\ (code = 2%Z -> val = Z.of_N e) /\
  (match k with
   | KOpen _ | KAccept _ | KDgRecv | KPReady => code = 2%Z
   | KWrite _ _ => code <> 1%Z
   | _ => True
   end) /\
  Poisoned e m' /\ c_snd m' = c_snd m /\ total_rcvd m' = total_rcvd m /\
  c_dgout m' = c_dgout m /\ c_tasks m' = c_tasks m.
Proof.
  intros e m t k HP. pose proof HP as (Ho & Hi & Hg & Hp & Hs & Hr).
  destruct k as [d | d | sid len | sid | sid | sid n | | ]; cbn [poll].
  - unfold poll_open. rewrite Ho. cbn. repeat split; auto; discriminate.
  - unfold poll_accept. rewrite Ho. cbn. repeat split; auto; discriminate.
  - unfold poll_write. destruct (handed_sender m sid) as [s|] eqn:E; [|cbn; repeat split; auto; discriminate].
    destruct (handed_sender_ok _ _ _ _ HP E) as [L Q].
    destruct (sn_err s) as [e'|] eqn:Es.
    + cbn. rewrite (Q e' eq_refl). repeat split; auto; discriminate.
    + unfold sn_live in L. destruct (sn_st s); try (specialize (L eq_refl); discriminate);
        cbn; repeat split; auto; discriminate.
  - unfold poll_flush. destruct (handed_sender m sid) as [s|] eqn:E; [|cbn; repeat split; auto; discriminate].
    destruct (handed_sender_ok _ _ _ _ HP E) as [L Q].
    destruct (sn_err s) as [e'|] eqn:Es.
    + cbn. rewrite (Q e' eq_refl). repeat split; auto; discriminate.
    + unfold sn_live in L. destruct (sn_st s); try (specialize (L eq_refl); discriminate);
        cbn; repeat split; auto; discriminate.
  - unfold poll_shutdown. destruct (handed_sender m sid) as [s|] eqn:E; [|cbn; repeat split; auto; discriminate].
    destruct (handed_sender_ok _ _ _ _ HP E) as [L Q].
    destruct (sn_err s) as [e'|] eqn:Es.
    + cbn. rewrite (Q e' eq_refl). repeat split; auto; discriminate.
    + unfold sn_live in L. destruct (sn_st s); try (specialize (L eq_refl); discriminate);
        cbn; repeat split; auto; discriminate.
  - unfold poll_read. destruct (handed_recver m sid) as [r|] eqn:E; [|cbn; repeat split; auto; discriminate].
    destruct (handed_recver_ok _ _ _ _ HP E) as [L Q].
    pose proof (handed_recver_lookup _ _ _ E) as LK.
    destruct (rc_err r) as [e'|] eqn:Er.
    + cbn. rewrite (Q e' eq_refl). repeat split; auto; discriminate.
    + unfold rc_live in L.
      destruct (rc_ph r) eqn:Ph; try (specialize (L eq_refl); discriminate); cbn [fst snd];
        (split; [discriminate|]); (split; [intros X; discriminate X|]); (split; [exact I|]).
      * (* DataRcvd: the bytes that arrived before the error may still be read *)
        split; [|split; [reflexivity|split; [|split; reflexivity]]].
        -- unfold Poisoned, upd_rcv. cbn. repeat split; auto.
           apply Forall_aupdate; [exact Hr|]. unfold rcv_ok, rc_live, with_rc. cbn. rewrite Er.
           split; [destruct (_ =? _); intros; discriminate|intros; discriminate].
        -- unfold total_rcvd, upd_rcv. cbn. apply (aupdate_rcvd _ _ r); [exact LK|reflexivity].
      * repeat split; auto.
      * split; [|split; [reflexivity|split; [|split; reflexivity]]].
        -- unfold Poisoned, upd_rcv. cbn. repeat split; auto.
           apply Forall_aupdate; [exact Hr|]. unfold rcv_ok, rc_live, with_rc. cbn. rewrite Er.
           split; intros; discriminate.
        -- unfold total_rcvd, upd_rcv. cbn. apply (aupdate_rcvd _ _ r); [exact LK|reflexivity].
      * repeat split; auto.
  - unfold poll_dgrecv. rewrite Hi. cbn. repeat split; auto; discriminate.
  - unfold poll_pready. rewrite Hp. cbn. repeat split; auto; discriminate.
Qed.

(* the transport side: nothing is emitted, no datagram is accepted in either direction, and
   arriving stream data does not reach any receive buffer *)
Lemma poisoned_load : forall e m, Poisoned e m -> load m = (m, [0; 0; 0]%Z).
Proof.
  intros e m (Ho & Hi & Hg & Hp & _ & _). unfold load. rewrite Ho, Hg. reflexivity.
Qed.
Lemma poisoned_dgram_send : forall e m len, Poisoned e m -> dgram_send m len = (m, [2%Z; Z.of_N e]).
Proof. intros e m len (Ho & Hi & Hg & Hp & _ & _). unfold dgram_send. rewrite Hg. reflexivity. Qed.
Lemma poisoned_dgram_in : forall e m len, Poisoned e m -> dgram_in m len = (m, [2%Z; Z.of_N e]).
Proof. intros e m len (Ho & Hi & Hg & Hp & _ & _). unfold dgram_in. rewrite Hi. reflexivity. Qed.

Lemma alookup_known : forall m sid r, peer_may_send m sid = Some r -> alookup (c_rcv m) sid = Some r.
Proof.
  intros m sid r H. unfold peer_may_send in H. destruct (_ || _); [|discriminate].
  destruct (alookup (c_rcv m) sid) as [r0|]; [|discriminate]. destruct (_ && _); inversion H; reflexivity.
Qed.

Lemma poisoned_peer_data : forall e m sid len fin, Poisoned e m ->
  let m' := fst (peer_data m sid len fin) in
  Poisoned e m' /\ total_rcvd m' = total_rcvd m /\ c_snd m' = c_snd m /\ c_woken m' = c_woken m.
Proof.
  intros e m sid len fin HP. pose proof HP as (Ho & Hi & Hg & Hp & Hs & Hr). unfold peer_data.
  destruct (peer_may_send m sid) as [r|] eqn:E; [|cbn; auto].
  unfold live_in_set. rewrite Ho. cbn [fst].
  pose proof (alookup_known _ _ _ E) as LK.
  destruct (alookup_In _ _ _ _ LK) as [k' Hin]. rewrite Forall_forall in Hr. pose proof (Hr _ Hin) as Rk. cbn in Rk.
  repeat split; auto.
  - unfold upd_rcv. cbn. apply Forall_aupdate; [apply Forall_forall; exact Hr|].
    unfold rcv_ok, rc_live, with_tk in *. cbn. exact Rk.
  - unfold total_rcvd, upd_rcv. cbn. apply (aupdate_rcvd _ _ r); [exact LK|reflexivity].
Qed.

(* ---------------------------------------------------------------- F23 on the tree as it stood *)
Definition f23_ops : list (N * list Z) := [(0, []); (1, [0%Z]); (1, [0%Z])].
Definition f23_cfg : list Z := [0; 0; 1; 1; 10]%Z.
Definition dummy_cm : cm :=
  mkcm true 0 false (0, 0) 0 false [] [] None ([], []) None None (0, 0) (0, 0) ([], []) (0, 0)
       false [] None [] None None [] None 0 0 None [] [].
(* handshake done, the peer allows one bidirectional stream: the first open gets it, the second
   (task 2) parks in the stream-id allocator *)
Definition f23_state (fix23 : bool) : cm :=
  match cm_init fix23 f23_cfg with Some m => cm_exec m 0 f23_ops | None => dummy_cm end.

Definition is_clean (m : cm) : bool :=
  match c_out_err m, c_dgin_err m, c_dgout_err m, c_perr m with
  | None, None, None, None =>
    forallb (fun ks => match sn_err (snd ks) with None => true | _ => false end) (c_snd m) &&
    forallb (fun kr => match rc_err (snd kr) with None => true | _ => false end) (c_rcv m)
  | _, _, _, _ => false
  end.

Lemma is_clean_Clean : forall m, is_clean m = true -> Clean m.
Proof.
  intros m H. unfold is_clean in H.
  destruct (c_out_err m) eqn:A; [discriminate|]. destruct (c_dgin_err m) eqn:B; [discriminate|].
  destruct (c_dgout_err m) eqn:C; [discriminate|]. destruct (c_perr m) eqn:D; [discriminate|].
  apply andb_true_iff in H. destruct H as [H1 H2]. rewrite forallb_forall in H1, H2.
  unfold Clean. repeat split; auto; apply Forall_forall; intros x Hx.
  - specialize (H1 x Hx). destruct (sn_err (snd x)); [discriminate|reflexivity].
  - specialize (H2 x Hx). destruct (rc_err (snd x)); [discriminate|reflexivity].
Qed.

(* as-is: the parked open is registered, is NOT woken by the connection error, and is still parked
   after the executor ran (nothing will ever poll it again unless a MAX_STREAMS frame arrives) *)
Lemma p_c17_release_refuted :
  let m := f23_state false in
  Clean m /\ In 2 (registered m) /\ (In 2 (c_woken (conn_error 7 m)) -> False) /\
  existsb (fun tk => fst tk =? 2) (c_tasks (fst (settle (conn_error 7 m) 3))) = true.
Proof.
  cbv zeta. split; [apply is_clean_Clean; vm_compute; reflexivity|].
  split; [vm_compute; auto|]. split; [vm_compute; intuition discriminate|vm_compute; reflexivity].
Qed.

(* repaired: the same history, the parked open is woken and completes with the error *)
Lemma p_c17_release_f23_fixed :
  let m := f23_state true in
  In 2 (c_woken (conn_error 7 m)) /\ c_tasks (fst (settle (conn_error 7 m) 3)) = [] /\
  snd (settle (conn_error 7 m) 3) = [-1; 1; 2; -2; 1; 2; 2; 7]%Z.
Proof. cbv zeta. split; [vm_compute; auto|]. split; vm_compute; reflexivity. Qed.
