(* Model of qconnection/src/path/aa.rs (AntiAmplifier<3>) at ATOMIC-operation granularity, together
   with the CREDIT bit of the qbase::net::tx::SendWaker it wakes.  Definitions only.

   credit : AtomicUsize  -> N, fetch_add written explicitly modulo 2^64, on_sent's debit saturating at 0
   state  : AtomicU8     -> N (0 NORMAL, 1 GRANTED, 2 ABORTED)
   tx_waker (projection on Signals::CREDIT): `cbit` = bit 5 of SendWaker.state, `reg` = a waker is
   stored, `wakes` = number of Waker::wake_by_ref calls so far.

   The composite operations (`on_rcvd`, `balance`, `on_sent`, `grant`, `abort`) are compositions of
   the atomic pieces; the small-step system at the end interleaves the same pieces. *)
From Coq Require Import List NArith ZArith Bool.
From GQ Require Export Lib.Base.
Import ListNotations.
Local Open Scope N_scope.

Definition W : N := 2 ^ 64.              (* usize on the 64-bit targets the harness runs on *)
Definition MAXU : N := W - 1.
Definition FACTOR : N := 3.              (* DEFAULT_ANTI_FACTOR *)

Record aa := mkaa { st : N; credit : N; cbit : bool; reg : bool; wakes : N }.
Definition aa0 : aa := mkaa 0 0 false false 0.

(* ---- atomic pieces ---- *)
Definition set_credit (a : aa) (c : N) : aa := mkaa (st a) c (cbit a) (reg a) (wakes a).
Definition set_st (a : aa) (v : N) : aa := mkaa v (credit a) (cbit a) (reg a) (wakes a).

(* AtomicUsize::fetch_add wraps around in every build profile *)
Definition fetch_add (a : aa) (n : N) : aa := set_credit a ((credit a + n) mod W).
(* on_sent's read-modify-write: `credit.fetch_update(.., |c| Some(c.saturating_sub(n)))` - one atomic step whose
   result is max(credit - n, 0) (N subtraction is truncated)
   (repaired code, commit "fix: AntiAmplifier::on_sent saturates instead of wrapping the credit") *)
Definition debit (a : aa) (n : N) : aa := set_credit a (credit a - n).
Definition over_debit (a : aa) (n : N) : bool := credit a <? n.       (* the debit saturated *)

(* SendWaker::wake_by(CREDIT): wakes iff the bit was clear; sets the bit *)
Definition wake_credit (a : aa) : aa :=
  if cbit a then a
  else mkaa (st a) (credit a) true (reg a) (wakes a + (if reg a then 1 else 0)).

(* SendWaker::poll_wait_for(cx, CREDIT): bit set -> clear everything, Ready; else store the waker, Pending *)
Definition poll_wait (a : aa) : aa * bool :=
  if cbit a then (mkaa (st a) (credit a) false (reg a) (wakes a), true)
  else (mkaa (st a) (credit a) false true (wakes a), false).

(* ---- balance(): three loads ---- *)
Inductive bres := BErr | BSome (v : N) | BNone | BPanic.

(* s1 = first load of state, c = load of credit, s2 = second load of state; bool = wake_by(CREDIT) is called *)
Definition balance_of (s1 c s2 : N) : bres * bool :=
  if s1 =? 1 then (BSome MAXU, false)
  else if s1 =? 2 then (BNone, false)
  else if s1 =? 0 then
    if c =? 0 then
      if s2 =? 0 then (BErr, false)
      else (if s2 =? 1 then BSome MAXU else BNone, true)
    else (BSome c, false)
  else (BPanic, false).                        (* `_ => unreachable!()` *)

Definition balance (a : aa) : aa * bres :=
  let '(r, w) := balance_of (st a) (credit a) (st a) in
  (if w then wake_credit a else a, r).

(* ---- the other composite operations ---- *)
Definition on_rcvd (a : aa) (n : N) : aa :=
  if st a =? 0 then wake_credit (fetch_add a ((n * FACTOR) mod W)) else a.

Definition on_sent (a : aa) (n : N) : aa :=
  if st a =? 0 then debit a n else a.

Definition grant (a : aa) : aa := if st a =? 0 then wake_credit (set_st a 1) else a.
Definition abort (a : aa) : aa := if st a =? 0 then wake_credit (set_st a 2) else a.

(* =====================================================================================
   Small-step system: one sender task (the `burst` loop of qconnection/src/path.rs) and any number of
   concurrently running notifier calls (on_rcvd from the packet-receiving tasks, grant, abort),
   one atomic or one lock-protected operation per step.
   ===================================================================================== *)

Inductive npc :=
| NAdd (n : N)        (* on_rcvd: state was NORMAL, `credit.fetch_add(n*3)` is next *)
| NWake.              (* `tx_waker.wake_by(CREDIT)` is next *)

Inductive spc :=
| SIdle                       (* about to call balance(): first load of state *)
| SLoadCredit                 (* state was NORMAL; load of credit is next *)
| SReloadState                (* credit was 0; second load of state is next *)
| SWakeSelf                   (* second load saw GRANTED/ABORTED: wake_by(CREDIT), then return *)
| SWait                       (* balance() = Err(CREDIT); `tx_waker.wait_for(CREDIT)` is polled next *)
| SParked (w0 : N)            (* poll returned Pending when `wakes` was w0 *)
| SSend (budget : N)          (* balance() = Ok(Some budget): the burst is assembled *)
| SDebitLoad (n : N)          (* n bytes assembled; on_sent: load of state is next *)
| SDebit (n : N)              (* state was NORMAL; the saturating `credit.fetch_update` is next *)
| SDone.                      (* path deactivated *)

Record sys := mksys {
  sa : aa; pend : list npc; spcv : spc;
  gR : N;     (* ghost: bytes received from the address (counted when on_rcvd is entered) *)
  gH : N      (* ghost: bytes handed to the IO sender *)
}.

Definition sys0 : sys := mksys aa0 [] SIdle 0 0.

Inductive lbl :=
| LRcvd (n : N)            (* on_rcvd entered: load of state *)
| LGrant | LAbort          (* compare_exchange *)
| LNotif (i : nat)         (* the i-th pending notifier performs its next atomic step *)
| LSender (k : N).         (* the sender performs its next step; k = bytes it chooses to assemble (SSend only) *)

Definition remove_nth {A} (i : nat) (l : list A) : list A := firstn i l ++ skipn (S i) l.

Definition sender_step (y : sys) (k : N) : option sys :=
  let a := sa y in
  let upd a' pc := Some (mksys a' (pend y) pc (gR y) (gH y)) in
  match spcv y with
  | SIdle => if st a =? 1 then upd a (SSend MAXU)
             else if st a =? 2 then upd a SDone
             else upd a SLoadCredit
  | SLoadCredit => if credit a =? 0 then upd a SReloadState else upd a (SSend (credit a))
  | SReloadState => if st a =? 0 then upd a SWait else upd a SWakeSelf
  | SWakeSelf => upd (wake_credit a) (if st a =? 1 then SSend MAXU else SDone)
  | SWait => let '(a', ready) := poll_wait a in upd a' (if ready then SIdle else SParked (wakes a))
  | SParked w0 => if w0 <? wakes a then upd a SWait else None       (* runs again only after a wake *)
  | SSend budget =>
      (* CONDITIONAL burst (one segment, no padding beyond the constrained buffer): k <= budget bytes *)
      if k <=? budget then Some (mksys a (pend y) (SDebitLoad k) (gR y) (gH y + k)) else None
  | SDebitLoad n => if st a =? 0 then upd a (SDebit n) else upd a SIdle
  | SDebit n => upd (debit a n) SIdle
  | SDone => None
  end.

Definition sstep (y : sys) (l : lbl) : option sys :=
  let a := sa y in
  match l with
  | LRcvd n =>
      if st a =? 0 then Some (mksys a (pend y ++ [NAdd n]) (spcv y) (gR y + n) (gH y))
      else Some (mksys a (pend y) (spcv y) (gR y + n) (gH y))
  | LGrant => if st a =? 0 then Some (mksys (set_st a 1) (pend y ++ [NWake]) (spcv y) (gR y) (gH y)) else Some y
  | LAbort => if st a =? 0 then Some (mksys (set_st a 2) (pend y ++ [NWake]) (spcv y) (gR y) (gH y)) else Some y
  | LNotif i =>
      match nth_error (pend y) i with
      | None => None
      | Some (NAdd n) =>
          Some (mksys (fetch_add a ((n * FACTOR) mod W)) (remove_nth i (pend y) ++ [NWake]) (spcv y) (gR y) (gH y))
      | Some NWake => Some (mksys (wake_credit a) (remove_nth i (pend y)) (spcv y) (gR y) (gH y))
      end
  | LSender k => sender_step y k
  end.

Inductive sreach : sys -> Prop :=
| sreach0 : sreach sys0
| sreachS y l y' : sreach y -> sstep y l = Some y' -> sreach y'.

(* =====================================================================================
   Method calls at ATOMIC-operation granularity, for two calls racing on two threads under an explicit
   schedule (stream op RACE: the harness runs the REAL methods on two threads, one atomic operation of
   `credit` / `state` at a time, through the cfg(gmquic_verif) instrumented atomics of aa.rs).
   One `mstep` = one atomic operation together with the thread-local code that follows it
   (`tx_waker.wake_by` is not an atomic of aa.rs and runs with the operation before it).
   ===================================================================================== *)

Inductive mcall := CRcvd (n : N) | CBalance | CSent (n : N) | CGrant | CAbort | CNop.
Inductive mres := RUnit | RBal (b : bres).

Inductive mpc :=
| PStart (c : mcall)          (* the first atomic operation of the call is next *)
| PRcvdAdd (n : N)            (* on_rcvd: state was NORMAL; `credit.fetch_add(n*3)` + wake_by is next *)
| PBalCredit                  (* balance: state was NORMAL; load of credit is next *)
| PBalReload                  (* balance: credit was 0; second load of state is next *)
| PSentDebit (n : N)          (* on_sent: state was NORMAL; the saturating `credit.fetch_update` is next *)
| PDone (r : mres).

Definition mstart (c : mcall) : mpc := match c with CNop => PDone RUnit | _ => PStart c end.

Definition mstep (a : aa) (p : mpc) : aa * mpc :=
  match p with
  | PStart (CRcvd n) => if st a =? 0 then (a, PRcvdAdd n) else (a, PDone RUnit)
  | PRcvdAdd n => (wake_credit (fetch_add a ((n * FACTOR) mod W)), PDone RUnit)
  | PStart CBalance =>
      if st a =? 1 then (a, PDone (RBal (BSome MAXU)))
      else if st a =? 2 then (a, PDone (RBal BNone))
      else if st a =? 0 then (a, PBalCredit)
      else (a, PDone (RBal BPanic))
  | PBalCredit => if credit a =? 0 then (a, PBalReload) else (a, PDone (RBal (BSome (credit a))))
  | PBalReload =>
      if st a =? 0 then (a, PDone (RBal BErr))
      else (wake_credit a, PDone (RBal (if st a =? 1 then BSome MAXU else BNone)))
  | PStart (CSent n) => if st a =? 0 then (a, PSentDebit n) else (a, PDone RUnit)
  | PSentDebit n => (debit a n, PDone RUnit)
  | PStart CGrant => (if st a =? 0 then wake_credit (set_st a 1) else a, PDone RUnit)   (* compare_exchange *)
  | PStart CAbort => (if st a =? 0 then wake_credit (set_st a 2) else a, PDone RUnit)
  | PStart CNop => (a, PDone RUnit)
  | PDone r => (a, PDone r)
  end.

Definition pdone (p : mpc) : bool := match p with PDone _ => true | _ => false end.

(* a call running alone *)
Definition mrun_alone (a : aa) (c : mcall) : aa * mpc :=
  let '(a1, p1) := mstep a (mstart c) in
  let '(a2, p2) := mstep a1 p1 in
  mstep a2 p2.

(* two calls A and B under a schedule: each bit names the thread that performs its next atomic operation
   (false = A, true = B; a finished thread hands the turn to the other; after the schedule: A first).
   na / nb count the atomic operations each thread performed. *)
Fixpoint race (fuel : nat) (a : aa) (pa pb : mpc) (na nb : N) (sched : list bool) : aa * mpc * mpc * N * N :=
  match fuel with
  | O => (a, pa, pb, na, nb)
  | S f =>
      if pdone pa && pdone pb then (a, pa, pb, na, nb)
      else
        let pick := match sched with b :: _ => b | [] => false end in
        let runb := if pick then negb (pdone pb) else pdone pa in
        if runb then let '(a', pb') := mstep a pb in race f a' pa pb' na (nb + 1) (tl sched)
        else let '(a', pa') := mstep a pa in race f a' pa' pb (na + 1) nb (tl sched)
  end.

Definition RACE_FUEL : nat := 8.      (* each call performs at most 3 atomic operations *)

Definition race_calls (a : aa) (ca cb : mcall) (sched : list bool) : aa * mpc * mpc * N * N :=
  race RACE_FUEL a (mstart ca) (mstart cb) 0 0 sched.
