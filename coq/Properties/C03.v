(* C03 — decoding untrusted bytes never panics, hangs or mis-frames.
   Only the property theorems live here; proofs are in Proofs/FramesTotal.v. *)
From Coq Require Import List ZArith NArith.
From GQ Require Import Lib.Wire Model.Varint Model.Frames Proofs.FramesTotal.
Import ListNotations.
Local Open Scope Z_scope.

(* for every packet type and every byte string, decoding one frame never reaches a panic site … *)
Theorem c03_frame_no_panic : forall p bs s, be_frame p bs <> FPanic s.
Proof. exact p_c03_frame_no_panic. Qed.

(* … and a decoded frame consumed at least one byte and no more than the buffer holds *)
Theorem c03_frame_consumed : forall p bs c f t, be_frame p bs = FOk c f t -> 0 < c <= zlen bs.
Proof. exact p_c03_frame_consumed. Qed.

(* a frame is delivered only in a packet type that admits its type *)
Theorem c03_frame_type_checked : forall p bs c f t, be_frame p bs = FOk c f t -> belongs t p = true.
Proof. exact p_c03_frame_type_checked. Qed.

(* iterating over a whole payload: total consumption stays inside the payload, no result is a panic,
   and |payload|+1 iterations always suffice (the reader cannot loop without consuming input) *)
Theorem c03_frames_of : forall p bs,
  total_consumed (frames_of p bs) <= zlen bs /\
  (forall r, In r (frames_of p bs) -> forall s, r <> FPanic s) /\
  (forall extra, read_frames (extra + S (length bs)) p bs = frames_of p bs).
Proof. exact p_c03_frames_of. Qed.

(* every frame decoding error is the connection error the protocol prescribes
   (table regenerated from frame/error.rs and error.rs on every run) *)
Theorem c03_error_mapping : forall e,
  quic_error_of e = (match e with ENoFrames => EK_PROTOCOL_VIOLATION | _ => EK_FRAME_ENCODING end).
Proof. exact p_c03_error_mapping. Qed.

Example c03_nonvacuous :
  be_frame PInitial [6; 0; 5; 1] = FErr EIncompleteFrame /\
  be_frame PInitial [8; 0] = FErr EWrongType /\
  be_frame POneRtt [31] = FErr EInvalidType /\
  frames_of POneRtt [1; 0; 0; 1] = [FOk 1 Ping TPing; FOk 1 Padding TPadding; FOk 1 Padding TPadding; FOk 1 Ping TPing].
Proof. vm_compute. repeat split. Qed.

Print Assumptions c03_frame_no_panic.
Print Assumptions c03_frame_consumed.
Print Assumptions c03_frame_type_checked.
Print Assumptions c03_frames_of.
Print Assumptions c03_error_mapping.
Print Assumptions c03_nonvacuous.
