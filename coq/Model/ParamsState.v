(* Model of qbase/src/param.rs `Parameters`: reception of the peer's transport parameters, binding
   to the connection IDs observed on the wire (authenticate_cids) in either arrival order, the
   negotiated idle timeout and the 0-RTT acceptance rule (param/core.rs is_0rtt_accepted).
   Definitions only. *)
From Coq Require Import List ZArith NArith Bool.
From GQ Require Export Model.Params.
Import ListNotations.
Local Open Scope Z_scope.

Record pstate := mk_ps {
  ps_role : role;                     (* our role *)
  ps_local_idle : Z;                  (* our max_idle_timeout, ms *)
  ps_origin : list Z;                 (* client only: the original destination connection id *)
  ps_remote : option pmap_t;          (* peer parameters once received *)
  ps_scid : option (list Z);          (* source connection id of the peer's first Initial packet *)
  ps_ready : bool;                    (* state == CLIENT_READY | SERVER_READY *)
  ps_failed : bool                    (* a TransportParameter error was returned *)
}.

Definition peer_of (r : role) : role := match r with Client => Server | Server => Client end.

Definition ps_init (r : role) (idle : Z) (origin : list Z) : pstate := mk_ps r idle origin None None false false.

Definition cid_eqb (a b : list Z) : bool := if list_eq_dec Z.eq_dec a b then true else false.

Definition get_cid (m : pmap_t) (id : Z) : option (list Z) :=
  match pm_get m id with Some (PVCid c) => Some c | _ => None end.

(* authenticate_cids: None = not yet decidable, Some true = authenticated, Some false = mismatch error.
   The `expect("this value must be set")` sites are unreachable because parse_params checked the
   required ids; a missing value is mapped to a mismatch here and shown impossible in the proofs. *)
Definition authenticate (s : pstate) (m : pmap_t) : option bool :=
  match ps_scid s with
  | None => None
  | Some scid =>
    match get_cid m PID_INITIAL_SOURCE_CONNECTION_ID with
    | Some c =>
      if negb (cid_eqb c scid) then Some false
      else match ps_role s with
           | Server => Some true
           | Client =>
             match get_cid m PID_ORIGINAL_DESTINATION_CONNECTION_ID with
             | Some o => Some (cid_eqb o (ps_origin s))
             | None => Some false
             end
           end
    | None => Some false
    end
  end.

Definition after_auth (s : pstate) (m : pmap_t) : pstate :=
  match authenticate s m with
  | None => s
  | Some true => mk_ps (ps_role s) (ps_local_idle s) (ps_origin s) (ps_remote s) (ps_scid s) true false
  | Some false => mk_ps (ps_role s) (ps_local_idle s) (ps_origin s) (ps_remote s) (ps_scid s) false true
  end.

Inductive ps_op :=
| PsParams (blob : list Z)        (* the peer's transport-parameter extension arrives (TLS) *)
| PsScid (cid : list Z).          (* the peer's first Initial packet is seen *)

Definition ps_step (s : pstate) (o : ps_op) : pstate :=
  if ps_failed s then s else
  match o with
  | PsParams blob =>
    match parse_params (peer_of (ps_role s)) blob with
    | PaOk m =>
        let s1 := mk_ps (ps_role s) (ps_local_idle s) (ps_origin s) (Some m) (ps_scid s) (ps_ready s) false in
        after_auth s1 m
    | _ => mk_ps (ps_role s) (ps_local_idle s) (ps_origin s) (ps_remote s) (ps_scid s) false true
    end
  | PsScid cid =>
    let s1 := mk_ps (ps_role s) (ps_local_idle s) (ps_origin s) (ps_remote s) (Some cid) (ps_ready s) false in
    match ps_remote s with
    | Some m => after_auth s1 m
    | None => s1
    end
  end.

Definition ps_run (s : pstate) (ops : list ps_op) : pstate := fold_left ps_step ops s.

(* Parameters::get with the table default *)
Definition param_default (id : Z) : option pvalue :=
  match param_row_of id with
  | Some row => match p_default row with
                | Some d => match p_type row with
                            | VTDuration => Some (PVDuration d)
                            | VTBytes => Some (PVBytes [])
                            | _ => Some (PVVarInt d)
                            end
                | None => None
                end
  | None => None
  end.
Definition pm_get_d (m : pmap_t) (id : Z) : option pvalue :=
  match pm_get m id with Some v => Some v | None => param_default id end.

Definition num_of (v : option pvalue) : option Z :=
  match v with Some (PVVarInt x) => Some x | Some (PVDuration x) => Some x | _ => None end.

(* negotiated_max_idle_timeout: None before the peer parameters are ready; Some (-1) stands for Duration::MAX *)
Definition negotiated_idle (s : pstate) : option Z :=
  if negb (ps_ready s) then None else
  match ps_remote s with
  | None => None
  | Some m =>
    match num_of (pm_get_d m PID_MAX_IDLE_TIMEOUT) with
    | None => None
    | Some r =>
      let l := ps_local_idle s in
      Some (if (l =? 0) && (r =? 0) then -1 else if l =? 0 then r else if r =? 0 then l else Z.min l r)
    end
  end.

(* ServerParameters::is_0rtt_accepted: none of the eight remembered values exceeds the new one *)
Definition zero_rtt_ids : list Z :=
  [PID_INITIAL_MAX_DATA; PID_INITIAL_MAX_STREAM_DATA_BIDI_LOCAL; PID_INITIAL_MAX_STREAM_DATA_BIDI_REMOTE;
   PID_INITIAL_MAX_STREAM_DATA_UNI; PID_INITIAL_MAX_STREAMS_BIDI; PID_INITIAL_MAX_STREAMS_UNI;
   PID_ACTIVE_CONNECTION_ID_LIMIT; PID_MAX_DATAGRAM_FRAME_SIZE].

(* None = the `unreachable!("Expected VarInt values …")` arm *)
Definition is_0rtt_accepted (old new : pmap_t) : option bool :=
  fold_right (fun id acc =>
    match acc, num_of (pm_get_d old id), num_of (pm_get_d new id) with
    | Some b, Some o, Some n => Some (b && (o <=? n))
    | _, _, _ => None
    end) (Some true) zero_rtt_ids.

(* RFC 9000 §18.2 value ranges (RFC 9221 adds none): the table regenerated from the source must agree *)
Definition rfc_bound (id : Z) : option (Z * Z) :=
  if id =? 3 then Some (1200, 65527)                 (* max_udp_payload_size *)
  else if (id =? 8) || (id =? 9) then Some (0, 2 ^ 60 - 1)   (* initial_max_streams_* : <= 2^60 *)
  else if id =? 10 then Some (0, 20)                 (* ack_delay_exponent *)
  else if id =? 11 then Some (0, 2 ^ 14 - 1)         (* max_ack_delay < 2^14 *)
  else if id =? 14 then Some (2, 2 ^ 62 - 1)         (* active_connection_id_limit >= 2 *)
  else None.

(* ---------------- operation interface (stream `params`) ---------------- *)
Definition b2z' (b : bool) : Z := if b then 1 else 0.
Definition ps_obs (s : pstate) : list Z :=
  if ps_failed s then [1; param_error_kind] else [0; b2z' (ps_ready s)].

Definition split_at (n : Z) (l : list Z) : list Z * list Z := (firstn (Z.to_nat n) l, skipn (Z.to_nat n) l).

(* cfg: role, local idle ms, origin dcid bytes…
   ops: 1 blob…  | 2 cid… | 3 (negotiated idle) | 4 n old-blob(n bytes) new-blob… (0-RTT acceptance, stateless) *)
Fixpoint ps_exec (s : pstate) (ops : list (N * list Z)) : list (list Z) :=
  match ops with
  | [] => []
  | (t, a) :: r =>
    if ps_failed s then [-1] :: ps_exec s r else
    match t with
    | 1%N => let s' := ps_step s (PsParams a) in ps_obs s' :: ps_exec s' r
    | 2%N => let s' := ps_step s (PsScid a) in ps_obs s' :: ps_exec s' r
    | 3%N => (match negotiated_idle s with Some v => [0; v] | None => [1] end) :: ps_exec s r
    | 4%N =>
        (match a with
         | n :: rest =>
             let '(ob, nb) := split_at n rest in
             match parse_remembered ob, parse_remembered nb with
             | PaOk o, PaOk nw => match is_0rtt_accepted o nw with Some b => [0; b2z' b] | None => [2] end
             | _, _ => [1]
             end
         | [] => [-2]
         end) :: ps_exec s r
    | _ => [-99] :: ps_exec s r
    end
  end.

Definition run_params (cfg : list Z) (ops : list (N * list Z)) : list (list Z) :=
  match cfg with
  | r :: idle :: origin => ps_exec (ps_init (if r =? 0 then Client else Server) idle origin) ops
  | _ => []
  end.
