#!/usr/bin/env python3
"""Regenerates every coq/Generated/*.v table from /repo's sources (translator step): the shared tables of
tools/extract_tables.py and whatever each property module regenerates through its `regen()`."""
import glob, importlib, os, sys
HERE = os.path.dirname(os.path.abspath(__file__))
sys.path.insert(0, HERE)
import extract_tables
extract_tables.regen_all()
for path in sorted(glob.glob(os.path.join(HERE, "props", "C*.py"))):
    mod = importlib.import_module("props." + os.path.basename(path)[:-3])
    if hasattr(mod, "regen"):
        mod.regen()
print("tables regenerated:", sorted(os.listdir(os.path.join(os.path.dirname(HERE), "coq", "Generated"))))
