(* Model of the QUIC frame codec: qbase/src/frame.rs, frame/io.rs, frame/*.rs, sid.rs (be_streamid),
   cid/connection_id.rs, token.rs (reset token), net.rs (socket address), error.rs (ErrorKind codes).
   Definitions only.  Decoders distinguish nom's Incomplete / Error(kind) because be_frame maps them
   to different frame errors; every Rust panic site is an explicit `Panic` outcome. *)
From Coq Require Import List ZArith NArith Bool.
From GQ Require Export Model.Varint Lib.FrameTypes Generated.FrameTable Generated.ErrorTable.
Import ListNotations.
Local Open Scope Z_scope.

(* ------------------------------------------------------------------ frame types *)

Fixpoint ft_lookup (tbl : list (Z * ftype)) (v : Z) : option ftype :=
  match tbl with
  | [] => None
  | (c, t) :: r => if c =? v then Some t else ft_lookup r v
  end.
Definition ft_of_code (v : Z) : option ftype := ft_lookup ft_decode_table v.

Definition belongs (t : ftype) (p : ptype) : bool :=
  let '(i, h, o, l) := ft_belongs t in
  match p with PInitial => i | PHandshake => h | PZeroRtt => o | POneRtt => l end.

(* ------------------------------------------------------------------ values *)

Inductive frame :=
| Padding | Ping | HandshakeDone
| Ack (largest delay first : Z) (ranges : list (Z * Z)) (ecn : option (Z * Z * Z))
| ResetStream (sid err final : Z)
| StopSending (sid err : Z)
| Crypto (off : Z) (data : list Z)
| NewToken (tok : list Z)
| Stream (sid off : Z) (len_bit fin : bool) (data : list Z)
| MaxData (v : Z)
| MaxStreamData (sid v : Z)
| MaxStreams (uni : bool) (v : Z)
| DataBlocked (v : Z)
| StreamDataBlocked (sid v : Z)
| StreamsBlocked (uni : bool) (v : Z)
| NewConnectionId (seq rpt : Z) (cid tok : list Z)
| RetireConnectionId (seq : Z)
| PathChallenge (d : list Z)
| PathResponse (d : list Z)
| CloseQuic (kind fty : Z) (reason : list Z)     (* error-kind code, offending frame-type code *)
| CloseApp (code : Z) (reason : list Z)
| Datagram (with_len : bool) (data : list Z)
| AddAddress (v6 : bool) (seq port ip tire nat : Z)
| RemoveAddress (seq : Z)
| PunchMeNow (v6 : bool) (lseq rseq port ip tire nat : Z)
| PunchHello (lseq rseq probe : Z)
| PunchDone (lseq rseq probe : Z).

Definition frame_type (f : frame) : ftype :=
  match f with
  | Padding => TPadding | Ping => TPing | HandshakeDone => THandshakeDone
  | Ack _ _ _ _ e => TAck (match e with Some _ => true | None => false end)
  | ResetStream _ _ _ => TResetStream | StopSending _ _ => TStopSending
  | Crypto _ _ => TCrypto | NewToken _ => TNewToken
  | Stream _ off lb fin _ => TStream (negb (off =? 0)) lb fin
  | MaxData _ => TMaxData | MaxStreamData _ _ => TMaxStreamData | MaxStreams u _ => TMaxStreams u
  | DataBlocked _ => TDataBlocked | StreamDataBlocked _ _ => TStreamDataBlocked
  | StreamsBlocked u _ => TStreamsBlocked u
  | NewConnectionId _ _ _ _ => TNewConnectionId | RetireConnectionId _ => TRetireConnectionId
  | PathChallenge _ => TPathChallenge | PathResponse _ => TPathResponse
  | CloseQuic _ _ _ => TConnectionClose false | CloseApp _ _ => TConnectionClose true
  | Datagram w _ => TDatagram w
  | AddAddress v6 _ _ _ _ _ => TAddAddress v6 | RemoveAddress _ => TRemoveAddress
  | PunchMeNow v6 _ _ _ _ _ _ => TPunchMeNow v6 | PunchHello _ _ _ => TPunchHello
  | PunchDone _ _ _ => TPunchDone
  end.

(* ------------------------------------------------------------------ constants *)

Definition MAX_CID_SIZE : Z := 20.
Definition RESET_TOKEN_SIZE : Z := 16.
Definition MAX_STREAMS_LIMIT : Z := 2 ^ 60 - 1.

(* TryFrom<VarInt> for ErrorKind: the accepted ranges are regenerated from error.rs *)
Definition error_kind_valid (v : Z) : bool :=
  existsb (fun r => (fst r <=? v) && (v <=? snd r)) error_kind_ranges.
(* TryFrom<VarInt> for NatType truncates to u8 first; 0..=5 are valid *)
Definition nat_type_of (v : Z) : option Z := let b := v mod 256 in if b <=? 5 then Some b else None.

(* ------------------------------------------------------------------ encoders *)

Definition put_ft (t : ftype) : list Z := put_varint (code_of_ft t).

Definition put_cid (cid : list Z) : list Z := zlen cid :: cid.
(* put_socket_addr: port u16, then u32 / u128 *)
Definition put_addr (v6 : bool) (port ip : Z) : list Z :=
  put_be 2 port ++ put_be (if v6 then 16 else 4) ip.

Fixpoint put_ranges (rs : list (Z * Z)) : list Z :=
  match rs with
  | [] => []
  | (g, a) :: r => put_varint g ++ put_varint a ++ put_ranges r
  end.

Definition put_frame (f : frame) : list Z :=
  put_ft (frame_type f) ++
  match f with
  | Padding | Ping | HandshakeDone => []
  | Ack l d fr rs e =>
      put_varint l ++ put_varint d ++ put_varint (zlen rs) ++ put_varint fr ++ put_ranges rs ++
      match e with Some (a, b, c) => put_varint a ++ put_varint b ++ put_varint c | None => [] end
  | ResetStream s e fs => put_varint s ++ put_varint e ++ put_varint fs
  | StopSending s e => put_varint s ++ put_varint e
  | Crypto off data => put_varint off ++ put_varint (zlen data) ++ data
  | NewToken tok => put_varint (zlen tok mod 2 ^ 32) ++ tok            (* `len as u32` *)
  | Stream s off lb _ data =>
      put_varint s ++ (if off =? 0 then [] else put_varint off) ++
      (if lb then put_varint (zlen data mod 2 ^ 32) else []) ++ data     (* `length as u32` *)
  | MaxData v | DataBlocked v | RetireConnectionId v | RemoveAddress v => put_varint v
  | MaxStreamData s v | StreamDataBlocked s v => put_varint s ++ put_varint v
  | MaxStreams _ v | StreamsBlocked _ v => put_varint v
  | NewConnectionId seq rpt cid tok => put_varint seq ++ put_varint rpt ++ put_cid cid ++ tok
  | PathChallenge d | PathResponse d => d
  | CloseQuic k ft reason => put_varint k ++ put_varint ft ++ put_varint (zlen reason mod 2 ^ 32) ++ reason
  | CloseApp c reason => put_varint c ++ put_varint (zlen reason mod 2 ^ 32) ++ reason
  | Datagram w data => (if w then put_varint (zlen data) else []) ++ data
  | AddAddress v6 seq port ip tire nat => put_varint seq ++ put_addr v6 port ip ++ put_varint tire ++ put_varint nat
  | PunchMeNow v6 l r port ip tire nat =>
      put_varint l ++ put_varint r ++ put_addr v6 port ip ++ put_varint tire ++ put_varint nat
  | PunchHello l r p | PunchDone l r p => put_varint l ++ put_varint r ++ put_varint p
  end.

(* EncodeSize::encoding_size, as coded *)
Fixpoint ranges_size (rs : list (Z * Z)) : Z :=
  match rs with
  | [] => 0
  | (g, a) :: r => varint_size g + varint_size a + ranges_size r
  end.

Definition ft_size (t : ftype) : Z := varint_size (code_of_ft t).

Definition encoding_size (f : frame) : Z :=
  match f with
  | Padding | Ping | HandshakeDone => 1
  | Ack l d fr rs e =>
      1 + varint_size l + varint_size d + varint_size (zlen rs) + varint_size fr + ranges_size rs +
      match e with Some (a, b, c) => varint_size a + varint_size b + varint_size c | None => 0 end
  | ResetStream s e fs => 1 + varint_size s + varint_size e + varint_size fs
  | StopSending s e => 1 + varint_size s + varint_size e
  | Crypto off data => 1 + varint_size off + varint_size (zlen data)
  | NewToken tok => 1 + varint_size (zlen tok) + zlen tok
  | Stream s off lb _ data =>
      1 + varint_size s + (if off =? 0 then 0 else varint_size off) + (if lb then varint_size (zlen data) else 0)
  | MaxData v | DataBlocked v | RetireConnectionId v => 1 + varint_size v
  | MaxStreamData s v | StreamDataBlocked s v => 1 + varint_size s + varint_size v
  | MaxStreams _ v | StreamsBlocked _ v => 1 + varint_size v
  | NewConnectionId seq rpt cid _ => 1 + varint_size seq + varint_size rpt + 1 + zlen cid + RESET_TOKEN_SIZE
  | PathChallenge d | PathResponse d => 1 + zlen d
  | CloseQuic k ft reason => 1 + varint_size k + varint_size ft + varint_size (zlen reason) + zlen reason
  | CloseApp c reason => 1 + varint_size c + varint_size (zlen reason) + zlen reason
  | Datagram w data => 1 + (if w then varint_size (zlen data) else 0)
  | AddAddress v6 seq _ _ tire nat =>
      ft_size (TAddAddress v6) + varint_size seq + (if v6 then 18 else 6) + varint_size tire + varint_size nat
  | RemoveAddress seq => ft_size TRemoveAddress + varint_size seq
  | PunchMeNow v6 l r _ _ tire nat =>
      ft_size (TPunchMeNow v6) + varint_size l + varint_size r + (if v6 then 18 else 6) + varint_size tire + varint_size nat
  | PunchHello l r p => ft_size TPunchHello + varint_size l + varint_size r + varint_size p
  | PunchDone l r p => ft_size TPunchDone + varint_size l + varint_size r + varint_size p
  end.

(* EncodeSize::max_encoding_size, as coded *)
Definition max_encoding_size (f : frame) : Z :=
  match f with
  | Padding | Ping | HandshakeDone => 1
  | Ack _ _ _ rs e => 1 + 8 + 8 + 8 + 8 + zlen rs * 16 + match e with Some _ => 24 | None => 0 end
  | ResetStream _ _ _ => 25
  | StopSending _ _ => 17
  | Crypto _ _ => 17
  | NewToken tok => 1 + varint_size (zlen tok) + zlen tok
  | Stream _ _ _ _ _ => 25
  | MaxData _ | DataBlocked _ | RetireConnectionId _ => 9
  | MaxStreamData _ _ | StreamDataBlocked _ _ => 17
  | MaxStreams _ _ | StreamsBlocked _ _ => 9
  | NewConnectionId _ _ _ _ => 1 + 8 + 8 + 21 + RESET_TOKEN_SIZE
  | PathChallenge d | PathResponse d => 1 + zlen d
  | CloseQuic _ _ reason => 1 + 8 + 8 + 2 + zlen reason
  | CloseApp _ reason => 1 + 8 + 2 + zlen reason
  | Datagram _ _ => 9
  | AddAddress _ _ _ _ _ _ => 4 + 8 + 2 + 16 + 8 + 8
  | RemoveAddress _ => 12
  | PunchMeNow _ _ _ _ _ _ _ => 4 + 8 + 8 + 18 + 8 + 8
  | PunchHello _ _ _ | PunchDone _ _ _ => 28
  end.

(* bytes the frame occupies in the packet: header (encoding_size) plus the body of data-bearing frames *)
Definition wire_size (f : frame) : Z :=
  encoding_size f +
  match f with
  | Crypto _ d | Stream _ _ _ _ d | Datagram _ d => zlen d
  | _ => 0
  end.

(* ------------------------------------------------------------------ decoders *)

Definition be_cid : parser (list Z) :=
  len <- be_uint_s 1 ;;
  if MAX_CID_SIZE <? len then (fun _ => Bad EK_TooLarge) else take_s len.

Definition be_addr (v6 : bool) : parser (Z * Z) :=
  port <- be_uint_c 2 ;; ip <- be_uint_c (if v6 then 16 else 4) ;; ret (port, ip).

Fixpoint be_ranges (n : nat) (fuel : nat) : parser (list (Z * Z)) :=
  match fuel with
  | O => (fun _ => Incomplete)          (* each range needs >= 2 bytes: unreachable when fuel > |input| *)
  | S fuel' =>
    match n with
    | O => ret []
    | S n' => g <- be_varint ;; a <- be_varint ;; rs <- be_ranges n' fuel' ;; ret ((g, a) :: rs)
    end
  end.

(* the ACK range count is a u64 `while count > 0` loop bounded only by the input; [count] may be
   astronomically large, so the model iterates min(count, |input|+1) times *)
Definition be_ack (ecn : bool) : parser frame :=
  fun bs =>
  (l <- be_varint ;; d <- be_varint ;; count <- be_varint ;; fr <- be_varint ;;
   (fun bs' =>
      let n := Z.to_nat (Z.min count (zlen bs' + 1)) in
      (rs <- be_ranges n (S (length bs')) ;;
       if ecn then (a <- be_varint ;; b <- be_varint ;; c <- be_varint ;; ret (Ack l d fr rs (Some (a, b, c))))
       else ret (Ack l d fr rs None)) bs')) bs.

(* AckFrame::is_valid (RFC 9000 19.3.1, checked by complete_frame through nom's `verify`): no packet
   number computed from the ranges is negative.  One arm per checked subtraction
   (`checked_sub(gap)`, `checked_sub(2)`, `checked_sub(range)`). *)
Fixpoint ack_ranges_valid (smallest : Z) (rs : list (Z * Z)) : bool :=
  match rs with
  | [] => true
  | (g, a) :: r =>
      if smallest <? g then false
      else if smallest - g <? 2 then false
      else if smallest - g - 2 <? a then false
      else ack_ranges_valid (smallest - g - 2 - a) r
  end.
Definition ack_valid (l fr : Z) (rs : list (Z * Z)) : bool :=
  if l <? fr then false else ack_ranges_valid (l - fr) rs.
Definition ack_verify (f : frame) : parser frame :=
  match f with
  | Ack l _ fr rs _ => if ack_valid l fr rs then ret f else (fun _ => Bad EK_Verify)
  | _ => ret f
  end.

Definition be_close_app : parser frame :=
  c <- be_varint ;; n <- be_varint ;; r <- take_c n ;; ret (CloseApp c r).

(* be_quic_close_frame: an invalid error code or an unknown / incomplete frame type give ErrorKind::Alt *)
Definition be_close_quic : parser frame :=
  k <- be_varint ;;
  if negb (error_kind_valid k) then (fun _ => Bad EK_Alt) else
  (fun bs => match be_varint bs with
             | Ok ft rest =>
                 match ft_of_code ft with
                 | None => Bad EK_Alt
                 | Some _ => (n <- be_varint ;; r <- take_c n ;; ret (CloseQuic k ft r)) rest
                 end
             | Incomplete => Bad EK_Alt
             | Bad e => Bad EK_Alt
             | Panic s => Panic s
             end).

Definition be_new_cid : parser frame :=
  seq <- be_varint ;; rpt <- be_varint ;;
  if seq <? rpt then (fun _ => Bad EK_Verify) else
  cid <- be_cid ;;
  match cid with
  | [] => (fun _ => Bad EK_Verify)
  | _ => tok <- take_c RESET_TOKEN_SIZE ;; ret (NewConnectionId seq rpt cid tok)
  end.

Definition be_nat : parser Z :=
  v <- be_varint ;; match nat_type_of v with Some n => ret n | None => (fun _ => Bad EK_Verify) end.

(* complete_frame: body parser for a given frame type *)
Definition be_body (t : ftype) : parser frame :=
  match t with
  | TPadding => ret Padding
  | TPing => ret Ping
  | THandshakeDone => ret HandshakeDone
  | TAck ecn => f <- be_ack ecn ;; ack_verify f
  | TResetStream => s <- be_varint ;; e <- be_varint ;; f <- be_varint ;; ret (ResetStream s e f)
  | TStopSending => s <- be_varint ;; e <- be_varint ;; ret (StopSending s e)
  | TCrypto =>
      off <- be_varint ;; len <- be_varint ;;
      if VARINT_MAX <? off + len then (fun _ => Bad EK_TooLarge) else
      (fun bs => if zlen bs <? len then Incomplete
                 else Ok (Crypto off (firstn (Z.to_nat len) bs)) (skipn (Z.to_nat len) bs))
  | TNewToken => n <- be_varint ;; tok <- take_s n ;; ret (NewToken tok)
  | TStream o lb fin =>
      s <- be_varint ;;
      off <- (if o then be_varint else ret 0) ;;
      (fun bs =>
         match (if lb then be_varint bs else Ok (zlen bs) bs) with
         | Ok len rest =>
             if VARINT_MAX <? off + len then Bad EK_TooLarge
             else if zlen rest <? len then Incomplete
             else Ok (Stream s off lb fin (firstn (Z.to_nat len) rest)) (skipn (Z.to_nat len) rest)
         | Incomplete => Incomplete
         | Bad k => Bad k
         | Panic st => Panic st
         end)
  | TMaxData => v <- be_varint ;; ret (MaxData v)
  | TMaxStreamData => s <- be_varint ;; v <- be_varint ;; ret (MaxStreamData s v)
  | TMaxStreams u => v <- be_varint ;; if MAX_STREAMS_LIMIT <? v then (fun _ => Bad EK_TooLarge) else ret (MaxStreams u v)
  | TDataBlocked => v <- be_varint ;; ret (DataBlocked v)
  | TStreamDataBlocked => s <- be_varint ;; v <- be_varint ;; ret (StreamDataBlocked s v)
  | TStreamsBlocked u => v <- be_varint ;; ret (StreamsBlocked u v)
  | TNewConnectionId => be_new_cid
  | TRetireConnectionId => v <- be_varint ;; ret (RetireConnectionId v)
  | TPathChallenge => d <- take_s 8 ;; ret (PathChallenge d)
  | TPathResponse => d <- take_c 8 ;; ret (PathResponse d)
  | TConnectionClose true => be_close_app
  | TConnectionClose false => be_close_quic
  | TDatagram true =>
      n <- be_varint ;;
      (fun bs => if zlen bs <? n then Incomplete
                 else Ok (Datagram true (firstn (Z.to_nat n) bs)) (skipn (Z.to_nat n) bs))
  | TDatagram false => (fun bs => Ok (Datagram false bs) [])
  | TAddAddress v6 =>
      seq <- be_varint ;; a <- be_addr v6 ;; tire <- be_varint ;; nat <- be_nat ;;
      ret (AddAddress v6 seq (fst a) (snd a) tire nat)
  | TRemoveAddress => v <- be_varint ;; ret (RemoveAddress v)
  | TPunchMeNow v6 =>
      l <- be_varint ;; r <- be_varint ;; a <- be_addr v6 ;; tire <- be_varint ;; nat <- be_nat ;;
      ret (PunchMeNow v6 l r (fst a) (snd a) tire nat)
  | TPunchHello => l <- be_varint ;; r <- be_varint ;; p <- be_varint ;; ret (PunchHello l r p)
  | TPunchDone => l <- be_varint ;; r <- be_varint ;; p <- be_varint ;; ret (PunchDone l r p)
  end.

Inductive fres :=
| FOk (consumed : Z) (f : frame) (t : ftype)
| FErr (e : ferr)
| FPanic (site : N).

(* io::be_frame *)
Definition be_frame (p : ptype) (raw : list Z) : fres :=
  match be_varint raw with
  | Incomplete => FErr EIncompleteType
  | Bad _ => FErr EIncompleteType
  | Panic s => FPanic s
  | Ok code remain =>
    match ft_of_code code with
    | None => FErr EInvalidType
    | Some t =>
      if negb (belongs t p) then FErr EWrongType else
      match be_body t remain with
      | Ok f rest => FOk (zlen raw - zlen rest) f t
      | Incomplete => FErr EIncompleteFrame
      | Bad _ => FErr EParseError
      | Panic s => FPanic s
      end
    end
  end.

(* FrameReader: iterate until the payload is empty; callers stop at the first error *)
Fixpoint read_frames (fuel : nat) (p : ptype) (bs : list Z) : list fres :=
  match fuel with
  | O => []
  | S fuel' =>
    match bs with
    | [] => []
    | _ => match be_frame p bs with
           | FOk c f t => FOk c f t :: read_frames fuel' p (skipn (Z.to_nat c) bs)
           | r => [r]
           end
    end
  end.
Definition frames_of (p : ptype) (bs : list Z) : list fres := read_frames (S (length bs)) p bs.

