(* Extraction of the executable models to OCaml for the correspondence checks.
   ExtrOcamlBasic only: bool/option/list/prod/unit/sumbool map to OCaml's own types;
   nat, positive, N and Z stay the Coq datatypes.  No Extract Constant. *)
From Coq Require Import ExtrOcamlBasic ZArith NArith.
From GQ Require Import Model.RecvBuf.
Extraction Language OCaml.
Extraction "model.ml"
  Z.add Z.mul Z.opp Z.div_eucl Z.of_N Z.to_N N.of_nat
  run_rcvbuf.
