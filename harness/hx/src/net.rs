//! In-memory datagram network implementing `qinterface::io::{IO, ProductIO}`.
//!
//! `poll_send` hands every datagram to a seeded fault scheduler (drop, delay by virtual time —
//! which reorders —, duplicate, truncate, bit-flip); delivery happens after the (virtual) latency
//! through a spawned sleeper task, `poll_recv` pops what has arrived.  No socket, no thread.
use std::{
    collections::{HashMap, VecDeque},
    io,
    net::SocketAddr,
    sync::{Arc, Mutex, MutexGuard},
    task::{Context, Poll, Waker},
    time::Duration,
};

use bytes::BytesMut;
use dquic::{
    qbase::net::route::{Line, Link, Pathway, Route},
    qinterface::{
        bind_uri::BindUri,
        io::{IO, ProductIO},
    },
};

use crate::Rng;

#[derive(Clone, Debug, Default)]
pub struct Faults {
    /// permille probabilities, applied per datagram while the schedule is active
    pub drop: u64,
    pub dup: u64,
    pub delay: u64,
    pub trunc: u64,
    pub flip: u64,
    pub max_extra_delay_ms: u64,
    /// base one-way latency (virtual ms)
    pub latency_ms: u64,
    /// BOUNDED profile: faults apply only to the first `budget` datagrams handed to the network
    pub budget: Option<u64>,
    /// UNBOUNDED profile: from this datagram index on every datagram (in `blackout_dir`) is lost
    pub blackout_after: Option<u64>,
    /// 0 both directions, 1 only client->server, 2 only server->client
    pub blackout_dir: u64,
}

#[derive(Clone, Debug, Default)]
pub struct Stats {
    pub sent: u64,
    pub delivered: u64,
    pub dropped: u64,
    pub duplicated: u64,
    pub delayed: u64,
    pub truncated: u64,
    pub flipped: u64,
    pub blackholed: u64,
    pub unroutable: u64,
}

struct Endpoint {
    q: VecDeque<(Vec<u8>, SocketAddr)>,
    waker: Option<Waker>,
    closed: bool,
}

struct State {
    eps: HashMap<SocketAddr, Arc<Mutex<Endpoint>>>,
    next_port: u16,
    server_addr: Option<SocketAddr>,
    faults: Faults,
    rng: Rng,
    stats: Stats,
}

pub struct Net {
    st: Mutex<State>,
}

fn lock<T>(m: &Mutex<T>) -> MutexGuard<'_, T> {
    m.lock().unwrap_or_else(|e| e.into_inner())
}

impl Net {
    pub fn new(seed: u64, faults: Faults) -> Arc<Self> {
        Arc::new(Net {
            st: Mutex::new(State {
                eps: HashMap::new(),
                next_port: 40000,
                server_addr: None,
                faults,
                rng: Rng::new(seed ^ 0x6e65_7477_6f72_6b),
                stats: Stats::default(),
            }),
        })
    }
    pub fn set_server_addr(&self, a: SocketAddr) {
        lock(&self.st).server_addr = Some(a);
    }
    pub fn stats(&self) -> Stats {
        lock(&self.st).stats.clone()
    }
    /// stop injecting faults from now on (used by nothing in the profiles; kept for experiments)
    pub fn heal(&self) {
        let mut st = lock(&self.st);
        st.faults.budget = Some(0);
        st.faults.blackout_after = None;
    }

    fn bind(self: &Arc<Self>, bind_uri: BindUri) -> MemIo {
        let mut st = lock(&self.st);
        let want: SocketAddr = bind_uri
            .as_inet_bind_uri()
            .unwrap_or_else(|| SocketAddr::from(([127, 0, 0, 1], 0)));
        let addr = if want.port() == 0 {
            st.next_port += 1;
            SocketAddr::new(want.ip(), st.next_port)
        } else {
            want
        };
        let ep = Arc::new(Mutex::new(Endpoint { q: VecDeque::new(), waker: None, closed: false }));
        st.eps.insert(addr, ep.clone());
        MemIo { bind_uri, addr, net: self.clone(), ep }
    }

    /// the fault scheduler: decides the fate of one datagram
    fn transmit(self: &Arc<Self>, src: SocketAddr, dst: SocketAddr, data: &[u8]) {
        let mut plan: Vec<(u64, Vec<u8>)> = Vec::new(); // (delay ms, bytes)
        let target;
        {
            let mut st = lock(&self.st);
            let idx = st.stats.sent;
            st.stats.sent += 1;
            target = st.eps.get(&dst).cloned();
            if target.is_none() {
                st.stats.unroutable += 1;
                return;
            }
            let c2s = st.server_addr == Some(dst);
            let f = st.faults.clone();
            if let Some(b) = f.blackout_after
                && idx >= b
                && (f.blackout_dir == 0 || (f.blackout_dir == 1 && c2s) || (f.blackout_dir == 2 && !c2s))
            {
                st.stats.blackholed += 1;
                return;
            }
            let active = f.budget.is_none_or(|b| idx < b);
            let mut bytes = data.to_vec();
            let mut delay = f.latency_ms;
            if active {
                // every choice is drawn in a fixed order so that the schedule is a function of
                // (seed, datagram index) only
                let r_drop = st.rng.chance(f.drop);
                let r_dup = st.rng.chance(f.dup);
                let r_delay = st.rng.chance(f.delay);
                let extra = st.rng.below(f.max_extra_delay_ms + 1);
                let r_trunc = st.rng.chance(f.trunc);
                let cut = st.rng.next();
                let r_flip = st.rng.chance(f.flip);
                let bit = st.rng.next();
                let extra2 = st.rng.below(f.max_extra_delay_ms + 1);
                if r_drop {
                    st.stats.dropped += 1;
                    return;
                }
                if r_delay {
                    st.stats.delayed += 1;
                    delay += extra;
                }
                if r_dup {
                    // the copy is the unmodified datagram, arriving later
                    st.stats.duplicated += 1;
                    plan.push((f.latency_ms + extra2, bytes.clone()));
                }
                if r_trunc && bytes.len() > 1 {
                    st.stats.truncated += 1;
                    let n = 1 + (cut % (bytes.len() as u64 - 1)) as usize;
                    bytes.truncate(n);
                }
                if r_flip && !bytes.is_empty() {
                    st.stats.flipped += 1;
                    let pos = (bit % (bytes.len() as u64 * 8)) as usize;
                    bytes[pos / 8] ^= 1 << (pos % 8);
                }
            }
            plan.push((delay, bytes));
        }
        let target = target.unwrap();
        for (d, bytes) in plan {
            let target = target.clone();
            let net = self.clone();
            tokio::spawn(async move {
                tokio::time::sleep(Duration::from_millis(d)).await;
                let mut ep = lock(&target);
                if ep.closed {
                    return;
                }
                ep.q.push_back((bytes, src));
                lock(&net.st).stats.delivered += 1;
                if let Some(w) = ep.waker.take() {
                    w.wake();
                }
            });
        }
    }
}

pub struct MemIo {
    bind_uri: BindUri,
    addr: SocketAddr,
    net: Arc<Net>,
    ep: Arc<Mutex<Endpoint>>,
}

fn closed_err() -> io::Error {
    io::Error::new(io::ErrorKind::NotConnected, "in-memory interface closed")
}

impl IO for MemIo {
    fn bind_uri(&self) -> BindUri {
        self.bind_uri.clone()
    }
    fn bound_addr(&self) -> io::Result<SocketAddr> {
        Ok(self.addr)
    }
    fn max_segment_size(&self) -> io::Result<usize> {
        Ok(1500)
    }
    fn max_segments(&self) -> io::Result<usize> {
        Ok(16)
    }
    fn poll_send(&self, _cx: &mut Context, pkts: &[io::IoSlice], route: Route) -> Poll<io::Result<usize>> {
        if lock(&self.ep).closed {
            return Poll::Ready(Err(closed_err()));
        }
        let dst = route.line.link.dst;
        for p in pkts {
            self.net.transmit(self.addr, dst, p);
        }
        Poll::Ready(Ok(pkts.len()))
    }
    fn poll_recv(&self, cx: &mut Context, pkts: &mut [BytesMut], route: &mut [Route]) -> Poll<io::Result<usize>> {
        let mut ep = lock(&self.ep);
        if ep.closed {
            return Poll::Ready(Err(closed_err()));
        }
        let room = pkts.len().min(route.len());
        let mut n = 0;
        while n < room {
            let Some((data, src)) = ep.q.pop_front() else { break };
            let len = data.len().min(pkts[n].len());
            pkts[n][..len].copy_from_slice(&data[..len]);
            let link = Link::new(self.addr, src);
            let line = Line::new(link, Line::DEFAULT_TTL, None, len as u16);
            route[n] = Route::new(Pathway::new(self.addr.into(), src.into()), line);
            n += 1;
        }
        if n == 0 {
            ep.waker = Some(cx.waker().clone());
            return Poll::Pending;
        }
        Poll::Ready(Ok(n))
    }
    fn poll_close(&mut self, _cx: &mut Context) -> Poll<io::Result<()>> {
        let mut ep = lock(&self.ep);
        ep.closed = true;
        ep.q.clear();
        if let Some(w) = ep.waker.take() {
            w.wake();
        }
        lock(&self.net.st).eps.remove(&self.addr);
        Poll::Ready(Ok(()))
    }
}

impl Drop for MemIo {
    fn drop(&mut self) {
        let mut ep = lock(&self.ep);
        ep.closed = true;
        if let Ok(mut st) = self.net.st.try_lock() {
            st.eps.remove(&self.addr);
        }
    }
}

pub struct Factory(pub Arc<Net>);
impl ProductIO for Factory {
    fn bind(&self, bind_uri: BindUri) -> Box<dyn IO> {
        Box::new(self.0.bind(bind_uri))
    }
}
