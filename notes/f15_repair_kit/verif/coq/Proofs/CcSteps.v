(* Step-level statements about the controller model: who may move the window and by how much,
   the loss rule, PTO arithmetic, the expired-timer dichotomy, the refutation witnesses for the
   findings F15, F16, F17, F25 and the conditional theorems outside those classes. *)
From Coq Require Import List ZArith Bool Lia.
From GQ Require Import Model.NewReno Model.LossDetect Model.Pto Proofs.NewReno Proofs.LossDetect Proofs.Pto.
Import ListNotations.
Local Open Scope Z_scope.

Section Fx.
Context {fx : bool}.
Local Notation on_packet_sent_core := (@GQ.Proofs.Pto.on_packet_sent_core fx).
Local Notation InvA_step := (@GQ.Proofs.Pto.InvA_step fx).
Local Notation InvA_ack := (@GQ.Proofs.Pto.InvA_ack fx).
Local Notation InvA_timeout := (@GQ.Proofs.Pto.InvA_timeout fx).

(* ------------------------------------------------------------------ *)
(* window movement through the sub-operations *)

Lemma process_ecn_le m r cev t e now : reno_ok m r -> cwnd (process_ecn r cev t e now) <= cwnd r.
Proof.
  intro H. destruct (process_ecn_effect m r cev t e now H) as [(A & _)|(_ & A & _)]; rewrite A; [lia|].
  destruct H as (_ & B & C & _). lia.
Qed.

Lemma cwnd_discard c ri e : In e epochs -> InvA c ->
  cwnd (c_reno (discard_epoch c ri e)) = cwnd (c_reno c) /\ rstart (c_reno (discard_epoch c ri e)) = rstart (c_reno c).
Proof.
  intros He H. destruct (discard_epoch_core c ri e) as (A & _). rewrite A.
  pose proof (flight_le_total c e He H) as Hle. destruct H as (H1 & H2 & H3 & H4).
  assert (Hf : sizes_ok (filter is_inflight (s_sent (c_sp c e)))) by (apply filter_sizes; apply H4).
  destruct (remove_from_bif_exact (c_reno c) _ Hf) as (R1 & R2 & R3 & R4 & R5 & R6 & R7);
    [rewrite discard_sum_flight; exact Hle|]. auto.
Qed.

Lemma cwnd_sent c ri e pn elic infl bytes :
  cwnd (c_reno (on_packet_sent fx c ri e pn elic infl bytes)) = cwnd (c_reno c) /\
  rstart (c_reno (on_packet_sent fx c ri e pn elic infl bytes)) = rstart (c_reno c).
Proof.
  destruct (on_packet_sent_core c ri e pn elic infl bytes) as (A & _). rewrite A.
  destruct infl; auto.
Qed.

(* the timeout path never raises the window *)
Lemma cwnd_timeout c ri : InvA c ->
  cwnd (c_reno (fst (fst (on_loss_detection_timeout fx c ri)))) <= cwnd (c_reno c).
Proof.
  intro H. unfold on_loss_detection_timeout.
  destruct (get_loss_time_and_epoch c) as [[t e]|] eqn:Eg.
  - destruct (get_loss_epoch c t e Eg) as (He & _).
    destruct (detect_lost fx (c_sp c e) (c_reno c) (i_ld ri) (c_now c)) as [[[s r] lost] pers] eqn:Ed.
    cbn [fst].
    pose proof (flight_le_total c e He H) as Hle. pose proof H as (H1 & H2 & H3 & H4).
    destruct (detect_lost_A (c_mtu c) _ _ _ _ _ _ _ _ Ed (H4 e) Hle H1 H3) as (_ & _ & _ & _ & D5 & _).
    match goal with |- context [set_loss_detection_timer ?x ri] => destruct (sldt_same x ri) as (A & _) end.
    rewrite A. exact D5.
  - cbn [fst].
    match goal with |- context [set_loss_detection_timer ?x ri] => destruct (sldt_same x ri) as (A & _) end.
    rewrite A. destruct (all_no_elic c); [ccbn; lia|].
    destruct (get_pto_time_and_epoch c ri) as (r, p). destruct r as [[t e]|]; ccbn; lia.
Qed.

(* the ACK path: the final window is at most the window right after the walk *)
Lemma cwnd_ack c ri e largest cev rs : In e epochs -> InvA c ->
  let c' := fst (fst (cc_on_ack fx c ri e largest cev rs)) in
  cwnd (c_reno c) < cwnd (c_reno c') ->
  exists p, In p (s_sent (c_sp c e)) /\ in_ranges (p_pn p) rs = true /\ is_acked p = false /\
            p_cc p = true /\ in_recovery (c_reno c) (p_time p) = false.
Proof.
  intros He H. cbn zeta. unfold cc_on_ack.
  pose proof (flight_le_total c e He H) as Hle. pose proof H as (H1 & H2 & H3 & H4).
  assert (Hu : s_sent (update_la (c_sp c e) largest) = s_sent (c_sp c e)) by reflexivity.
  destruct (space_on_ack (update_la (c_sp c e) largest) (c_reno c) rs) as [[s1 r1] res] eqn:Ea.
  destruct (space_on_ack_A (c_mtu c) _ _ _ _ _ _ Ea) as (G1 & G2 & G3 & G4 & G5 & G6 & _);
    try rewrite Hu; auto.
  rewrite Hu in G4.
  assert (Hgrow : cwnd (c_reno c) < cwnd r1 ->
     exists p, In p (s_sent (c_sp c e)) /\ in_ranges (p_pn p) rs = true /\ is_acked p = false /\
            p_cc p = true /\ in_recovery (c_reno c) (p_time p) = false).
  { intro Hlt. unfold space_on_ack in Ea. rewrite Hu in Ea.
    destruct (s_sent (c_sp c e)) as [|p0 ps0] eqn:Es; [inversion Ea; subst; lia|].
    rewrite <- Es in *.
    destruct (ack_walk (c_reno c) (s_sent (c_sp c e)) rs) as [[[r0 ps] el] lg] eqn:Ew.
    assert (r0 = r1) by (destruct lg; inversion Ea; reflexivity). subst r0.
    apply (ack_walk_grows (c_mtu c) rs _ _ _ _ _ _ Ew (H4 e) Hle H1 Hlt). }
  destruct res as [[el [ln lt]]|]; [|cbn [fst]; ccbn; exact Hgrow].
  set (r2 := process_ecn r1 cev lt e (c_now c)).
  destruct (detect_lost fx s1 r2 (i_ld ri) (c_now c)) as [[[s2 r3] lost] pers] eqn:Ed.
  cbn [fst].
  match goal with |- context [set_loss_detection_timer ?x ri] => destruct (sldt_same x ri) as (A & _) end.
  rewrite A.
  destruct (process_ecn_fields r1 cev lt e (c_now c)) as (F1 & F2 & F3). fold r2 in F1, F2, F3.
  assert (Hok2 : reno_ok (c_mtu c) r2) by (subst r2; now apply process_ecn_ok).
  assert (Hf1 : flight (s_sent s1) <= bif r2).
  { rewrite F2, G4. pose proof (flight_nonneg _ G3). lia. }
  destruct (detect_lost_A (c_mtu c) _ _ _ _ _ _ _ _ Ed G3 Hf1 Hok2 ltac:(congruence))
    as (_ & _ & _ & _ & D5 & _).
  pose proof (process_ecn_le (c_mtu c) r1 cev lt e (c_now c) G1) as L2. fold r2 in L2.
  intro Hlt. apply Hgrow.
  destruct (peer_completed (with_reno_sp c r3 e s2)); ccbn in Hlt; lia.
Qed.

(* c13_grow_only_on_ack_outside_recovery: in every reachable state, whatever the next operation and
   the RTT inputs, the window grows only in an accepted ACK operation that newly acknowledges a
   counted packet sent after the start of the current recovery period *)
Lemma p_c13_grow_only_on_ack c ri o : reach fx c -> op_ok o ->
  cwnd (c_reno c) < cwnd (c_reno (fst (cc_step fx c ri o))) ->
  exists e cev rs p, o = OpAck e cev rs /\ ack_ok rs = true /\
    In p (s_sent (c_sp c e)) /\ in_ranges (p_pn p) rs = true /\ is_acked p = false /\
    p_cc p = true /\ in_recovery (c_reno c) (p_time p) = false.
Proof.
  intros Hr Ho. pose proof (reach_InvA c Hr) as H. destruct o; cbn [cc_step op_ok] in *.
  - destruct (sent_ok c e pn elic infl bytes) eqn:Es; [|cbn [fst]; lia]. cbn [fst].
    destruct (cwnd_sent (with_lastpn c e pn) ri e pn elic infl bytes) as (A & _).
    assert (HI : InvA (on_packet_sent fx (with_lastpn c e pn) ri e pn elic infl bytes)).
    { pose proof (InvA_step c ri (OpSent e pn elic infl bytes) Ho H) as X. cbn [cc_step] in X.
      rewrite Es in X. cbn [fst] in X.
      unfold sent_ok in Es. apply andb_true_iff in Es. destruct Es as (Es & _).
      apply andb_true_iff in Es. destruct Es as (Es & _). apply andb_true_iff in Es. destruct Es as (_ & Es).
      apply Z.leb_le in Es. apply InvA_sent; auto; try (revert H; apply InvA_frame; ccbn; auto). }
    destruct ((e =? 1) && negb (c_server _)).
    + destruct (cwnd_discard _ ri 0 ltac:(cbn; auto) HI) as (B & _). rewrite B, A. ccbn. lia.
    + rewrite A. ccbn. lia.
  - destruct (ack_ok rs) eqn:Ek; [|cbn [fst]; lia].
    pose proof (cwnd_ack c ri e (fst (hd (0, 0) rs)) cev rs Ho H) as G. cbn zeta in G.
    pose proof (InvA_ack c ri e (fst (hd (0, 0) rs)) cev rs Ho H) as HI.
    destruct (cc_on_ack fx c ri e (fst (hd (0, 0) rs)) cev rs) as [[c1 lost] pers]. cbn [fst] in *.
    intro Hlt.
    assert (Hlt1 : cwnd (c_reno c) < cwnd (c_reno c1)).
    { destruct ((e =? 1) && c_server c1); [|exact Hlt].
      destruct (cwnd_discard c1 ri 0 ltac:(cbn; auto) HI) as (B & _). now rewrite B in Hlt. }
    destruct (G Hlt1) as (p & P). exists e, cev, rs, p. auto.
  - cbn [fst]. ccbn. lia.
  - pose proof (cwnd_timeout c ri H) as L.
    destruct (match c_timer c with Some t => t <=? c_now c | None => false end).
    + destruct (on_loss_detection_timeout fx c ri) as [[c1 lost] pers]. cbn [fst] in L. cbn [andb].
      destruct (6 <? c_pto_count c1); cbn [fst]; ccbn; [lia|].
      destruct (c_pending_burst c1); [|cbn [fst]; lia].
      unfold cc_send_quota. destruct (pacer_schedule _ _ _ _ _) as (p, q). cbn [fst]. ccbn.
      destruct (c_mtu c1 <=? _); ccbn; lia.
    + cbn [andb]. destruct (c_pending_burst c); [|cbn [fst]; lia].
      unfold cc_send_quota. destruct (pacer_schedule _ _ _ _ _) as (p, q). cbn [fst]. ccbn.
      destruct (c_mtu c <=? _); ccbn; lia.
  - destruct (which =? 0); [|destruct (which =? 1)]; cbn [fst]; ccbn; lia.
  - destruct ((0 <=? e) && (e <=? 1)) eqn:Ee; [|cbn [fst]; lia]. cbn [fst].
    apply andb_true_iff in Ee. destruct Ee as (E1 & E2). apply Z.leb_le in E1, E2.
    assert (He : In e epochs) by (assert (e = 0 \/ e = 1) by lia; cbn; intuition).
    destruct (cwnd_discard c ri e He H) as (B & _). rewrite B. lia.
  - unfold cc_send_quota. destruct (pacer_schedule _ _ _ _ _) as (p, q). ccbn.
    destruct (c_mtu c <=? _); cbn [fst]; ccbn; lia.
  - cbn [fst]. ccbn. lia.
  - cbn [fst]. lia.
Qed.

(* ------------------------------------------------------------------ *)
(* the loss rule, at the detection pass (both variants): a reported packet was Inflight and is older
   than loss_delay + max_ack_delay of its space, or sits at least 3 deque positions below the
   position of the largest acknowledged number [la]; in the repaired variant [la] is the number
   recorded in the space (there is one) and the packet is numbered below it *)
Lemma detect_lost_rule s r ld now s' r' lost pers pn :
  detect_lost fx s r ld now = (s', r', lost, pers) -> In pn lost ->
  exists la i p, la_of (fx:=fx) s la /\
    nth_error (s_sent s) (Z.to_nat i) = Some p /\ 0 <= i /\ p_pn p = pn /\ is_inflight p = true /\
    (p_time p < now - ld - s_mad s \/ i + PACKET_THRESHOLD <= bsearch_idx (s_sent s) la) /\
    (fx = true -> pn < la).
Proof.
  intros Hd Hin.
  destruct (detect_lost_cases (fx:=fx) s r ld now) as [(la & E & Hla)|(_ & _ & E)]; rewrite E in Hd;
    [|inversion Hd; subst; destruct Hin].
  unfold detect_pass in Hd.
  destruct (detect_walk fx la (s_sent s) 0 (now - ld - s_mad s) ld _) as [[ps lost0] lt] eqn:Hw.
  inversion Hd; subst; clear Hd.
  apply in_map_iff in Hin. destruct Hin as ((i, q) & Hq & Hin). cbn [snd] in Hq.
  destruct (detect_walk_rule _ _ _ _ _ _ _ _ _ _ Hw) as (A1 & _).
  destruct (A1 i q Hin) as (p & N & L & I & Q & R & B).
  exists la, i, p. replace (i - 0) with i in N by lia.
  subst q. cbn in Hq. subst pn. repeat split; auto.
Qed.

(* an acknowledged (AckedS) packet is never reported by a detection pass, and the pass never turns
   a packet back to Inflight *)
Lemma detect_lost_only_inflight s r ld now s' r' lost pers pn :
  detect_lost fx s r ld now = (s', r', lost, pers) ->
  (In pn lost -> ~ noinfl pn (s_sent s)) /\ (noinfl pn (s_sent s) -> noinfl pn (s_sent s')).
Proof.
  intros Hd.
  destruct (detect_lost_cases (fx:=fx) s r ld now) as [(la & E & Hla)|(_ & _ & E)]; rewrite E in Hd;
    [|inversion Hd; subst; ccbn; split; [intros []|auto]].
  unfold detect_pass in Hd.
  destruct (detect_walk fx la (s_sent s) 0 (now - ld - s_mad s) ld _) as [[ps lost0] lt] eqn:Hw.
  inversion Hd; subst; clear Hd. ccbn.
  destruct (detect_walk_rule _ _ _ _ _ _ _ _ _ _ Hw) as (A1 & _ & A3 & _).
  split; [|apply A3].
  intros Hin Hn. apply in_map_iff in Hin. destruct Hin as ((i, q) & Hq & Hin). cbn [snd] in Hq.
  destruct (A1 i q Hin) as (p & N & L & I & Q & R).
  apply nth_error_In in N. subst q. cbn in Hq. rewrite (Hn p N Hq) in I. discriminate.
Qed.

(* every Inflight packet of the space older than loss_delay + max_ack_delay is reported — in the
   repaired variant: every such packet numbered below the largest acknowledged of the space *)
Lemma detect_lost_resolves s r ld now s' r' lost pers p :
  detect_lost fx s r ld now = (s', r', lost, pers) ->
  In p (s_sent s) -> is_inflight p = true ->
  (fx = true -> exists la, s_la s = Some la /\ p_pn p < la) ->
  p_time p + ld + s_mad s < now -> In (p_pn p) lost.
Proof.
  intros Hd Hin Hi Hb Ht.
  destruct (detect_lost_cases (fx:=fx) s r ld now) as [(la & E & Hla)|(F & N & E)]; rewrite E in Hd.
  - unfold detect_pass in Hd.
    destruct (detect_walk fx la (s_sent s) 0 (now - ld - s_mad s) ld _) as [[ps lost0] lt] eqn:Hw.
    inversion Hd; subst; clear Hd.
    destruct (detect_walk_rule _ _ _ _ _ _ _ _ _ _ Hw) as (_ & A2 & _).
    apply A2; auto; [|lia].
    intro F. destruct (Hb F) as (n & Hn & Hlt). unfold la_of in Hla. rewrite Hn in Hla. now subst la.
  - destruct (Hb F) as (n & Hn & _). congruence.
Qed.

(* ------------------------------------------------------------------ *)
(* PTO arithmetic *)

Lemma pow2_succ k : 0 <= k -> 2 ^ (k + 1) = 2 * 2 ^ k.
Proof. intro H. rewrite Z.pow_add_r by lia. change (2 ^ 1) with 2. lia. Qed.

(* F17 (fixed by b1af7bb): the whole base is backed off, successive intervals double *)
Lemma p_c13_pto_doubles ri k : 0 <= k -> base_pto ri (k + 1) = 2 * base_pto ri k.
Proof. unfold base_pto. intros Hk. rewrite pow2_succ by lia. lia. Qed.

Lemma p_c13_pto_backoff ri k : 0 <= k -> 0 <= i_srtt ri ->
  0 < base_pto ri k /\ base_pto ri k < base_pto ri (k + 1).
Proof.
  intros Hk Hs. rewrite p_c13_pto_doubles by lia. unfold base_pto, GRANULARITY.
  assert (0 < 2 ^ k) by (apply Z.pow_pos_nonneg; lia). split; nia.
Qed.

(* ------------------------------------------------------------------ *)
(* an expired timer: losses are reported for the earliest space, or pto_count grows by one and a
   probe is requested; TooManyPtos exactly above 6 *)

Definition need_total (c : cc) : Z := c_need c 0 + c_need c 1 + c_need c 2.

Lemma p_c13_probe_or_resolve c ri :
  let '(c', lost, pers) := on_loss_detection_timeout fx c ri in
  match get_loss_time_and_epoch c with
  | Some (_, e) =>
      In e epochs /\ c_pto_count c' = c_pto_count c /\
      (forall p, In p (s_sent (c_sp c e)) -> is_inflight p = true ->
                 (fx = true -> exists la, s_la (c_sp c e) = Some la /\ p_pn p < la) ->
                 p_time p + i_ld ri + s_mad (c_sp c e) < c_now c -> In (e, p_pn p) lost) /\
      (forall x pn, In (x, pn) lost -> x = e /\ ~ noinfl pn (s_sent (c_sp c e)))
  | None =>
      lost = [] /\ c_pto_count c' = c_pto_count c + 1 /\
      (all_no_elic c = true -> need_total c' = need_total c + 1) /\
      (forall e, s_sent (c_sp c' e) = s_sent (c_sp c e))
  end.
Proof.
  unfold on_loss_detection_timeout.
  destruct (get_loss_time_and_epoch c) as [[t e]|] eqn:Eg.
  - destruct (get_loss_epoch c t e Eg) as (He & _).
    destruct (detect_lost fx (c_sp c e) (c_reno c) (i_ld ri) (c_now c)) as [[[s r] lost] pers] eqn:Ed.
    match goal with |- context [set_loss_detection_timer ?x ri] =>
      destruct (sldt_same x ri) as (A & B & C & D & E & F & _) end.
    split; [exact He|]. split; [rewrite F; reflexivity|]. split.
    + intros p Hp Hi Hb Ht. apply in_map. now apply (detect_lost_resolves _ _ _ _ _ _ _ _ p Ed).
    + intros x pn Hin. apply in_map_iff in Hin. destruct Hin as (pn0 & Hq & Hin). inversion Hq; subst.
      split; [reflexivity|]. now apply (detect_lost_only_inflight _ _ _ _ _ _ _ _ pn Ed).
  - match goal with |- context [set_loss_detection_timer ?x ri] =>
      destruct (sldt_same x ri) as (A & B & C & D & E & F & G & _) end.
    split; [reflexivity|]. split.
    + rewrite F. ccbn. destruct (all_no_elic c); [reflexivity|].
      destruct (get_pto_time_and_epoch c ri) as (r, p). destruct r as [[t e]|]; reflexivity.
    + split.
      * intro Ha. unfold need_total. rewrite G, Ha. ccbn. unfold fset.
        destruct (c_hs_key c); cbn [Z.eqb Pos.eqb]; lia.
      * intro e. rewrite B. ccbn. destruct (all_no_elic c); [reflexivity|].
        destruct (get_pto_time_and_epoch c ri) as (r, p). destruct r as [[t e0]|]; reflexivity.
Qed.

Lemma p_c13_too_many_ptos c ri :
  let '(c', out) := cc_step fx c ri OpTick in
  (o_result out = 1 <-> (exists t, c_timer c = Some t /\ t <= c_now c) /\ 6 < c_pto_count c') /\
  (o_result out = 1 -> c_dead c' = true).
Proof.
  cbn [cc_step].
  destruct (c_timer c) as [t|].
  - destruct (t <=? c_now c) eqn:Et.
    + apply Z.leb_le in Et.
      destruct (on_loss_detection_timeout fx c ri) as [[c1 lost] pers]. cbn [andb].
      destruct (6 <? c_pto_count c1) eqn:E6.
      * apply Z.ltb_lt in E6. ccbn. cbn [o_result]. split; [|reflexivity].
        split; [intros _; split; [exists t; auto|exact E6]|reflexivity].
      * apply Z.ltb_ge in E6.
        destruct (c_pending_burst c1).
        -- destruct (cc_send_quota c1 ri) as (c2, q) eqn:Eq. unfold cc_send_quota in Eq.
           destruct (pacer_schedule _ _ _ _ _) as (p0, q0). inversion Eq; subst. ccbn.
           cbn [o_result]. split; [|discriminate].
           split; [discriminate|]. intros (_ & X). destruct (c_mtu c1 <=? _); ccbn in X; lia.
        -- cbn [o_result]. split; [|discriminate]. split; [discriminate|]. intros (_ & X). lia.
    + apply Z.leb_gt in Et. cbn [andb].
      destruct (c_pending_burst c).
      * destruct (cc_send_quota c ri) as (c2, q). cbn [o_result]. split; [|discriminate].
        split; [discriminate|]. intros ((t0 & X & Y) & _). inversion X; subst. lia.
      * cbn [o_result]. split; [|discriminate].
        split; [discriminate|]. intros ((t0 & X & Y) & _). inversion X; subst. lia.
  - cbn [andb]. destruct (c_pending_burst c).
    + destruct (cc_send_quota c ri) as (c2, q). cbn [o_result]. split; [|discriminate].
      split; [discriminate|]. intros ((t0 & X & Y) & _). discriminate.
    + cbn [o_result]. split; [|discriminate].
      split; [discriminate|]. intros ((t0 & X & Y) & _). discriminate.
Qed.

(* ------------------------------------------------------------------ *)
(* sending within the window *)

(* a SENT operation adds at most its own bytes to bytes_in_flight and leaves the window alone *)
Lemma sent_step_bif c ri e pn elic infl bytes : reach fx c -> In e epochs ->
  let c' := fst (cc_step fx c ri (OpSent e pn elic infl bytes)) in
  bif (c_reno c') <= bif (c_reno c) + (if infl then Z.max 0 bytes else 0) /\ cwnd (c_reno c') = cwnd (c_reno c).
Proof.
  intros Hr He. pose proof (reach_InvA c Hr) as H. cbn zeta. cbn [cc_step].
  destruct (sent_ok c e pn elic infl bytes) eqn:Es; [|cbn [fst]; destruct infl; split; try reflexivity; lia].
  cbn [fst].
  pose proof (InvA_step c ri (OpSent e pn elic infl bytes) He H) as X. cbn [cc_step] in X. rewrite Es in X.
  cbn [fst] in X.
  assert (Hb : 0 <= bytes).
  { unfold sent_ok in Es. apply andb_true_iff in Es. destruct Es as (Es & _).
    apply andb_true_iff in Es. destruct Es as (Es & _). apply andb_true_iff in Es. destruct Es as (_ & Es).
    now apply Z.leb_le in Es. }
  assert (HI : InvA (on_packet_sent fx (with_lastpn c e pn) ri e pn elic infl bytes)).
  { apply InvA_sent; auto; try (revert H; apply InvA_frame; ccbn; auto). }
  destruct (on_packet_sent_core (with_lastpn c e pn) ri e pn elic infl bytes) as (A & _).
  assert (B1 : bif (c_reno (on_packet_sent fx (with_lastpn c e pn) ri e pn elic infl bytes)) =
               bif (c_reno c) + (if infl then bytes else 0) /\
               cwnd (c_reno (on_packet_sent fx (with_lastpn c e pn) ri e pn elic infl bytes)) = cwnd (c_reno c)).
  { rewrite A. ccbn. destruct infl; cbn; split; lia. }
  destruct B1 as (B1 & B2).
  destruct ((e =? 1) && negb (c_server _)); [|rewrite B1, B2; split; destruct infl; lia].
  set (c1 := on_packet_sent fx (with_lastpn c e pn) ri e pn elic infl bytes) in *.
  destruct (discard_epoch_core c1 ri 0) as (D1 & _).
  pose proof (flight_le_total c1 0 ltac:(cbn; auto) HI) as Hle. destruct HI as (H1 & H2 & H3 & H4).
  assert (Hf : sizes_ok (filter is_inflight (s_sent (c_sp c1 0)))) by (apply filter_sizes; apply H4).
  destruct (remove_from_bif_exact (c_reno c1) _ Hf) as (R1 & R2 & R3 & R4 & R5 & R6 & R7);
    [rewrite discard_sum_flight; exact Hle|].
  rewrite discard_sum_flight in R1. rewrite D1, R1, R5, B2.
  pose proof (flight_nonneg _ (H4 0)). split; destruct infl; lia.
Qed.

(* send_quota (after the `fix:` for F16) = min(pacer tokens, room in the window) *)
Lemma quota_bound c ri :
  snd (cc_send_quota c ri) <= window_room c /\
  snd (cc_send_quota c ri) <= pc_tokens (c_pacer (fst (cc_send_quota c ri))) /\
  c_reno (fst (cc_send_quota c ri)) = c_reno c.
Proof.
  unfold cc_send_quota. destruct (pacer_schedule (c_pacer c) _ _ _ _) as (p, q) eqn:E. ccbn.
  unfold pacer_schedule in E.
  destruct (pc_cwnd (c_pacer c) =? cwnd (c_reno c)); inversion E; subst; ccbn;
    (split; [lia|split; [cbn [pc_tokens]; lia|reflexivity]]).
Qed.

End Fx.

Fixpoint burst (fx : bool) (c : cc) (ri : rin) (l : list (Z * Z * bool * bool * Z)) : cc :=
  match l with
  | [] => c
  | (e, pn, elic, infl, bytes) :: rest => burst fx (fst (cc_step fx c ri (OpSent e pn elic infl bytes))) ri rest
  end.

Fixpoint burst_bytes (l : list (Z * Z * bool * bool * Z)) : Z :=
  match l with
  | [] => 0
  | (_, _, _, infl, bytes) :: rest => (if infl then Z.max 0 bytes else 0) + burst_bytes rest
  end.

Section Fx2.
Context {fx : bool}.
Local Notation on_packet_sent_core := (@GQ.Proofs.Pto.on_packet_sent_core fx).
Local Notation InvA_step := (@GQ.Proofs.Pto.InvA_step fx).
Local Notation InvA_ack := (@GQ.Proofs.Pto.InvA_ack fx).
Local Notation InvA_timeout := (@GQ.Proofs.Pto.InvA_timeout fx).

Lemma burst_bytes_nonneg l : 0 <= burst_bytes l.
Proof. induction l as [|[[[[e pn] el] infl] b] rest IH]; cbn [burst_bytes]; [lia|]. destruct infl; lia. Qed.

Lemma burst_bif c ri l : reach fx c ->
  Forall (fun x => In (fst (fst (fst (fst x)))) epochs) l ->
  bif (c_reno (burst fx c ri l)) <= bif (c_reno c) + burst_bytes l /\
  cwnd (c_reno (burst fx c ri l)) = cwnd (c_reno c).
Proof.
  revert c. induction l as [|[[[[e pn] el] infl] b] rest IH]; intros c Hr Hf; cbn [burst burst_bytes] in *.
  - split; lia.
  - inversion Hf as [|? ? He Hrest]; subst. cbn [fst] in He.
    destruct (sent_step_bif c ri e pn el infl b Hr He) as (A & B).
    destruct (IH _ (reachS c ri (OpSent e pn el infl b) Hr He) Hrest) as (C & D). rewrite D, B. split; [lia|reflexivity].
Qed.

(* c13_send_within_window, full strength: whatever the history and the RTT inputs, if send_quota
   grants a positive quota while no PTO probe is pending, any burst fx of packets whose in-flight
   bytes fit in that quota leaves bytes_in_flight within the congestion window *)
Lemma p_c13_send_within_window c ri ri' l : reach fx c -> probe_pending c = false ->
  0 < o_result (snd (cc_step fx c ri OpQuota)) ->
  Forall (fun x => In (fst (fst (fst (fst x)))) epochs) l ->
  burst_bytes l <= o_result (snd (cc_step fx c ri OpQuota)) ->
  let c' := burst fx (fst (cc_step fx c ri OpQuota)) ri' l in
  bif (c_reno c') <= cwnd (c_reno c').
Proof.
  intros Hr Hp Hq Hf Hb. cbn zeta.
  pose proof (reachS c ri OpQuota Hr I) as Hr1.
  destruct (burst_bif (fst (cc_step fx c ri OpQuota)) ri' l Hr1 Hf) as (A & B).
  rewrite B. cbn [cc_step] in *.
  destruct (quota_bound c ri) as (Q1 & _ & Q3).
  destruct (cc_send_quota c ri) as (c1, q). cbn [fst snd] in *.
  unfold window_room in Q1. rewrite Hp in Q1.
  destruct (c_mtu c1 <=? q); cbn [fst snd o_result] in *; [|lia].
  ccbn in A. rewrite Q3 in *. lia.
Qed.

(* with a probe pending (RFC 9002 7.5) the overshoot is at most one datagram *)
Lemma p_c13_probe_overshoot c ri ri' l : reach fx c ->
  0 < o_result (snd (cc_step fx c ri OpQuota)) ->
  Forall (fun x => In (fst (fst (fst (fst x)))) epochs) l ->
  burst_bytes l <= o_result (snd (cc_step fx c ri OpQuota)) ->
  let c' := burst fx (fst (cc_step fx c ri OpQuota)) ri' l in
  bif (c_reno c') <= Z.max (cwnd (c_reno c')) (bif (c_reno c) + c_mtu c).
Proof.
  intros Hr Hq Hf Hb. cbn zeta.
  pose proof (reachS c ri OpQuota Hr I) as Hr1.
  destruct (burst_bif (fst (cc_step fx c ri OpQuota)) ri' l Hr1 Hf) as (A & B).
  rewrite B. cbn [cc_step] in *.
  destruct (quota_bound c ri) as (Q1 & _ & Q3).
  destruct (cc_send_quota c ri) as (c1, q). cbn [fst snd] in *.
  unfold window_room in Q1.
  destruct (c_mtu c1 <=? q); cbn [fst snd o_result] in *; [|lia].
  ccbn in A. rewrite Q3 in *. destruct (probe_pending c); lia.
Qed.

End Fx2.

(* ------------------------------------------------------------------ *)
(* concrete histories (also in corpus/C13/cc) *)

Definition run_ops (fx : bool) (c : cc) (l : list (rin * cc_op)) : cc * list outcome :=
  fold_left (fun '(c, outs) '(ri, o) => let '(c', out) := cc_step fx c ri o in (c', outs ++ [out])) l (c, []).

Definition ri0 : rin := default_rin.

(* F15: a server sends one Data packet, nothing is ever acknowledged, 62.125001 ms later a tick
   declares it lost — in the code as it was ([fx = false]) *)
Definition f15_history : list (rin * cc_op) :=
  [(ri0, OpGrant); (ri0, OpSent 2 0 true true 1200); (ri0, OpAdv 62125001); (ri0, OpTick)].

Lemma p_c13_loss_needs_later_ack_refuted :
  let '(c, outs) := run_ops false (cc_new true 1200 25000000) f15_history in
  exists out, nth_error outs 3 = Some out /\ o_lost out = [(2, 0)] /\
              s_la (c_sp c 2) = None /\ cwnd (c_reno c) = 10800.
Proof. vm_compute. eexists. repeat split. Qed.

(* the same history on the repaired code: nothing is reported, the window is untouched *)
Lemma p_c13_f15_regression :
  let '(c, outs) := run_ops true (cc_new true 1200 25000000) f15_history in
  Forall (fun out => o_lost out = []) outs /\ s_la (c_sp c 2) = None /\ cwnd (c_reno c) = 12000 /\
  bif (c_reno c) = 1200.
Proof. vm_compute. repeat split; repeat constructor. Qed.

(* F16 regression history (fixed): ten full-size packets fill the window; 30 ms later the pacer
   bucket is full again but send_quota refuses (no room in the window) *)
Definition f16_history : list (rin * cc_op) :=
  [(ri0, OpGrant); (ri0, OpQuota)] ++
  map (fun pn => (ri0, OpSent 2 pn true true 1200)) [0; 1; 2; 3; 4; 5; 6; 7; 8; 9] ++
  [(ri0, OpAdv 30000000); (mkrin 37124999 33000000 16500000 0 0 13636, OpQuota)].

Lemma p_c13_f16_regression :
  let '(c, outs) := run_ops true (cc_new true 1200 25000000) f16_history in
  exists o1 o13, nth_error outs 1 = Some o1 /\ o_result o1 = 12000 /\
              nth_error outs 13 = Some o13 /\ o_result o13 = -1 /\
              bif (c_reno c) = 12000 /\ cwnd (c_reno c) = 12000 /\ pc_tokens (c_pacer c) = 12000.
Proof. vm_compute. do 2 eexists. repeat split. Qed.

(* F25 (repaired loss rule): six packets, 20 ms later an ACK for the last one: the three packets at
   least three positions below it are index-consecutive losses, which takes the window (13200
   after the ACK) to 12000 and then to 6000 in the same event and leaves no recovery period open *)
Definition f25_history : list (rin * cc_op) :=
  [(ri0, OpGrant); (ri0, OpSent 2 0 true true 1200); (ri0, OpSent 2 1 true true 1200);
   (ri0, OpSent 2 2 true true 1200); (ri0, OpSent 2 3 true true 1200);
   (ri0, OpSent 2 4 true true 1200); (ri0, OpSent 2 5 true true 1200); (ri0, OpAdv 20000000);
   (mkrin 22500000 20000000 10000000 20000000 1 0, OpAck 2 None [(5, 5)])].

Lemma p_c13_once_per_rtt_refuted :
  let '(c, outs) := run_ops true (cc_new true 1200 0) f25_history in
  exists out, nth_error outs 8 = Some out /\ o_pers out = true /\ o_lost out = [(2, 0); (2, 1); (2, 2)] /\
              cwnd (c_reno c) = 6000 /\ 6000 < Z.max (12000 - 1200) (2 * 1200) /\ rstart (c_reno c) = None.
Proof. vm_compute. eexists. repeat split. Qed.

(* non-vacuity of the invariants: a history with sends in three spaces, an ACK with two ranges,
   a packet-threshold loss, a discard and a tick is reachable and satisfies bif = sum *)
Definition nonvac_history : list (rin * cc_op) :=
  [(ri0, OpGrant); (ri0, OpSent 0 0 true true 1200); (ri0, OpHs 0); (ri0, OpSent 1 0 true true 800);
   (ri0, OpSent 2 0 true true 1200); (ri0, OpSent 2 1 false true 300); (ri0, OpSent 2 2 true true 1200);
   (ri0, OpSent 2 3 true true 1200); (ri0, OpSent 2 4 false false 60); (ri0, OpSent 2 5 true true 1200);
   (ri0, OpAdv 20000000); (mkrin 22500000 20000000 10000000 20000000 1 0, OpAck 2 None [(5, 5); (3, 2)]);
   (ri0, OpDiscard 0); (ri0, OpAdv 50000000); (ri0, OpTick)].

Lemma p_c13_nonvacuous :
  let '(c, outs) := run_ops true (cc_new true 1200 25000000) nonvac_history in
  bif (c_reno c) = total_flight c /\ 2 * 1200 <= cwnd (c_reno c) /\
  (exists out, nth_error outs 11 = Some out /\ o_lost out = [(2, 0); (2, 1)]) /\ r_sat (c_reno c) = false.
Proof. vm_compute. repeat split; try congruence. eexists. split; reflexivity. Qed.
