(* Model of packet assembly + protection and of the receive path.  Definitions only.

     qbase/src/packet/io.rs       PacketWriter::{new_long,new_short}, PacketLayout arithmetic,
                                  <PacketWriter as AssemblePacket>::encrypt_and_protect_packet
     qbase/src/packet/encrypt.rs  encode_{long,short}_first_byte, encrypt_packet, protect_header
     qbase/src/packet/decrypt.rs  remove_protection_of_{long,short}_packet, decrypt_packet,
                                  check_reserved_bits_of_{long,short}_packet (after the fix of F45)
     qbase/src/packet/type.rs     SpecificBits::pn_len (reserved-bit check), LONG/SHORT_RESERVED_MASK
     qbase/src/packet/number.rs   put_packet_number / take_pn_len / decode   (Model/Pn.v)
     qbase/src/packet/io.rs       be_packet                                   (Model/Packets.v)
     qinterface/src/component/route/packet.rs  CipherPacket::decrypt_{long,short}_packet

   CRYPTOGRAPHY IS ASSUMED, LAYOUT IS MODELLED.  The AEAD (`rustls::quic::PacketKey`) and the
   header-protection mask (`rustls::quic::HeaderProtectionKey`) are Section variables:
     enc k n aad plain   = ciphertext ++ 16-byte tag      (encrypt_in_place + returned Tag)
     dec k n aad c       = Some plain | None              (decrypt_in_place)
     mask hk sample      = 5 mask bytes from the 16-byte sample
   The way the mask is applied (first byte: low 4 bits of a long header / low 5 bits of a short
   header; then pn_len bytes, pn_len read from the UNMASKED first byte) is the shape of RFC 9001
   §5.4.1 as implemented inside rustls (`xor_in_place`), written out in [hp_protect]/[unprotect];
   the toy keys of the harness implement the same shape. *)
From Coq Require Import List ZArith NArith Bool.
From GQ Require Export Model.Packets Model.Pn.
Import ListNotations.
Local Open Scope Z_scope.

Definition TAG_LEN : Z := 16.
Definition SAMPLE_LEN : Z := 16.

(* l[off .. off+len) *)
Definition sub (l : list Z) (off len : Z) : list Z := firstn (Z.to_nat len) (skipn (Z.to_nat off) l).

(* xor the leading elements of l with m, as far as m reaches *)
Fixpoint xor_prefix (l m : list Z) : list Z :=
  match l, m with
  | x :: l', y :: m' => Z.lxor x y :: xor_prefix l' m'
  | _, _ => l
  end.

Definition is_short (h : header) : bool := match h with HOneRtt _ _ => true | _ => false end.
Definition is_data (h : header) : bool := match h with HVN _ _ _ | HRetry _ _ _ _ => false | _ => true end.

(* bits of the first byte covered by header protection: 0x0f long, 0x1f short (decided by the form bit) *)
Definition hp_bits (b0 : Z) : Z := if bit_set b0 128 then 15 else 31.
(* LONG_RESERVED_MASK / SHORT_RESERVED_MASK *)
Definition reserved_mask (short : bool) : Z := if short then 24 else 12.

(* put_packet_number *)
Definition pn_bytes (p : pnum) : list Z := put_be (Z.to_nat (width p)) (payload p).

Inductive build_res :=
| BOk (pkt : list Z)
| BSignal                 (* Err(Signals::CONGESTION): buffer shorter than header + length + 20 *)
| BNoFit                  (* the body does not fit remaining_mut() (advance_mut would panic) *)
| BPanic (site : N).      (* 1: assert!(payload+tag >= 20); 2: encode_varint(.., Two) needs < 2^14;
                             3: split_at_mut in protect_header; 9: not a data header *)

Inductive rx :=
| RxAccept (h : header) (total pn : Z) (phase : bool) (body : list Z)
| RxParse (e : perr)      (* be_packet error: the datagram is dropped *)
| RxConnErr               (* Some(Err(PROTOCOL_VIOLATION)): reserved bits set in an AUTHENTICATED packet *)
| RxInvalidPn             (* pn_decoder refused: dropped *)
| RxDecrypt               (* decrypt_packet failed: dropped *)
| RxNotData (kind : Z)    (* version negotiation / retry: not a protected packet *)
| RxPanic (site : N).

Inductive unprot :=
| UOk (pkt : list Z) (pnlen v : Z)       (* packet with first byte and pn unmasked; undecoded pn *)
| UPanic.

Section Protect.
  Variables key hkey : Type.
  Variable enc : key -> Z -> list Z -> list Z -> list Z.
  Variable dec : key -> Z -> list Z -> list Z -> option (list Z).
  Variable mask : hkey -> list Z -> list Z.

  (* protect_header: payload = pkt[off..]; (max_pn_buf, sample) = payload.split_at_mut(4);
     key.encrypt_in_place(&sample[..16], first_byte, &mut max_pn_buf[..pn_len]) *)
  Definition hp_protect (hk : hkey) (pkt : list Z) (off pnlen : Z) : option (list Z) :=
    let payload := skipn (Z.to_nat off) pkt in
    if zlen payload <? 4 + SAMPLE_LEN then None
    else
      let m := mask hk (sub payload 4 SAMPLE_LEN) in
      let b0 := hd 0 pkt in
      let n := Z.min pnlen (Z.land b0 3 + 1) in
      Some (Z.lxor b0 (Z.land (hd 0 m) (hp_bits b0))
              :: sub pkt 1 (off - 1) ++ xor_prefix (sub payload 0 n) (tl m) ++ skipn (Z.to_nat n) payload).

  (* PacketWriter::new_long / new_short, the body written through BufMut, encrypt_and_protect_packet.
     [pn] is the actual packet number (the AEAD nonce), [e] its encoding chosen by the caller.
     [rsv] = 0 is the code (the reserved bits are never set by the writer); a non-zero [rsv] (within the
     reserved mask) describes a peer that holds the keys but sets reserved bits — used only to state that
     such an authentic packet is answered with PROTOCOL_VIOLATION. *)
  Definition build_r (rsv : Z) (h : header) (phase : bool) (pn : Z) (e : pnum) (body : list Z) (bufsz : Z)
                     (k : key) (hk : hkey) : build_res :=
    if negb (is_data h) then BPanic 9
    else
      let short := is_short h in
      let hdr_len := header_size h in
      let len_enc := if short then 0 else 2 in
      if bufsz <? hdr_len + len_enc + 20 then BSignal
      else
        let w := width e in
        let cursor0 := hdr_len + len_enc + w in
        let end_ := bufsz - TAG_LEN in
        if end_ - cursor0 <? zlen body then BNoFit
        else
          let payload_len := w + zlen body in
          if payload_len + TAG_LEN <? 20 then BPanic 1
          else if negb short && (2 ^ 14 <=? payload_len + TAG_LEN) then BPanic 2
          else
            let hb := put_header h in
            let b0 := Z.lor (hd 0 hb) ((w - 1) + (if short && phase then 4 else 0) + rsv) in
            let hdr := b0 :: tl hb ++ (if short then [] else put_be 2 (2 ^ 14 + (payload_len + TAG_LEN))) in
            let aad := hdr ++ pn_bytes e in
            match hp_protect hk (aad ++ enc k pn aad body) (hdr_len + len_enc) w with
            | Some p => BOk p
            | None => BPanic 3
            end.
  Definition build := build_r 0.

  (* remove_protection_of_{long,short}_packet on pkt (the packet's own bytes), pn at [off].  The pn length is
     read from the unmasked first byte; the reserved bits are NOT judged here (the packet is not authenticated). *)
  Definition unprotect (hk : hkey) (pkt : list Z) (off : Z) : unprot :=
    let payload := skipn (Z.to_nat off) pkt in
    if zlen payload <? 4 + SAMPLE_LEN then UPanic
    else
      let m := mask hk (sub payload 4 SAMPLE_LEN) in
      let b0 := hd 0 pkt in
      let b0' := Z.lxor b0 (Z.land (hd 0 m) (hp_bits b0)) in
      let pnlen := Z.land b0' 3 + 1 in
      let pnb := xor_prefix (sub payload 0 pnlen) (tl m) in
      UOk (b0' :: sub pkt 1 (off - 1) ++ pnb ++ skipn (Z.to_nat pnlen) payload) pnlen
          (match get_be (Z.to_nat pnlen) 0 pnb with Some (v, _) => v | None => 0 end).

  (* be_packet, then CipherPacket::decrypt_long_packet (key [lk]) or decrypt_short_packet (key chosen by
     [sel] from the receiver's key state, the key-phase bit and the decoded pn — OneRttPacketKeys::get_remote).
     [exp] < 0 stands for a pn_decoder that refuses the number. *)
  Definition recv {S : Type} (lk : key) (sel : S -> bool -> Z -> option key * S) (s : S) (hk : hkey)
                  (dcid_len exp : Z) (dg : list Z) : rx * S :=
    match be_packet dcid_len dg with
    | PErr e => (RxParse e, s)
    | PPanic st => (RxPanic st, s)
    | POk h total off =>
      match h with
      | HVN _ _ _ => (RxNotData 0, s)
      | HRetry _ _ _ _ => (RxNotData 1, s)
      | _ =>
        let pkt := firstn (Z.to_nat total) dg in
        match unprotect hk pkt off with
        | UPanic => (RxPanic 1, s)
        | UOk pkt' pnlen v =>
          if exp <? 0 then (RxInvalidPn, s)
          else match decode (mk_pnum pnlen v) exp with
               | DecOverflow => (RxPanic 2, s)
               | DecOk pn =>
                 let phase := bit_set (hd 0 pkt') 4 in
                 let '(ko, s') := if is_short h then sel s phase pn else (Some lk, s) in
                 match ko with
                 | None => (RxPanic 3, s')                  (* get_remote: unwrap on None *)
                 | Some k =>
                   let bo := Z.to_nat (off + pnlen) in
                   match dec k pn (firstn bo pkt') (skipn bo pkt') with
                   | Some body =>
                       (* check_reserved_bits_of_{long,short}_packet: only now, on an authenticated packet *)
                       if negb (Z.land (hd 0 pkt') (reserved_mask (is_short h)) =? 0) then (RxConnErr, s')
                       else (RxAccept h total pn (is_short h && phase) body, s')
                   | None => (RxDecrypt, s')
                   end
                 end
               end
        end
      end
    end.

  (* receiver with one fixed key for every packet type *)
  Definition recv1 (k : key) (hk : hkey) (dcid_len exp : Z) (dg : list Z) : rx :=
    fst (recv k (fun (s : unit) _ _ => (Some k, s)) tt hk dcid_len exp dg).
End Protect.

(* ------------------------------------------------------------------ *)
(* The toy cipher of the harness (harness/hq/src/bin/impl_protect.rs: ToyKey / ToyHp).  It satisfies the
   round-trip and length hypotheses (Proofs/Protect.v) and is used ONLY to compare the layout of
   model and implementation byte for byte; it is of course not authentic. *)

Definition toy_kb (k j : Z) : Z := ((k mod 256) * (2 * j + 1) + 17 * j + (k / 256) mod 256) mod 256.
Definition toy_ks (k n i : Z) : Z := ((k mod 256) + 13 * ((k / 256) mod 256) + 31 * (n mod 256) + 7 * (i mod 256)) mod 256.

Fixpoint toy_xor (k n i : Z) (l : list Z) : list Z :=
  match l with [] => [] | b :: r => Z.lxor b (toy_ks k n i) :: toy_xor k n (i + 1) r end.

(* 16 polynomial hashes (mod 65521, multipliers 259, 261, …) over  nonce bytes ‖ |aad| ‖ aad ‖ |body| ‖ body,
   seeded with a key byte; the tag byte is the hash mod 256 *)
Definition toy_nbytes (n : Z) : list Z := map (fun t => (n / 256 ^ t) mod 256) [0;1;2;3;4;5;6;7].
Definition toy_len2 (l : list Z) : list Z := [zlen l mod 256; (zlen l / 256) mod 256].
Definition toy_hash (m : Z) (acc : Z) (l : list Z) : Z := fold_left (fun a b => (a * m + b + 1) mod 65521) l acc.

Definition toy_tag_at (k n : Z) (a body : list Z) (j : Z) : Z :=
  toy_hash (259 + 2 * j) (toy_kb k j + 1) (toy_nbytes n ++ toy_len2 a ++ a ++ toy_len2 body ++ body) mod 256.

Definition toy_tag (k n : Z) (a body : list Z) : list Z :=
  map (toy_tag_at k n a body) [0;1;2;3;4;5;6;7;8;9;10;11;12;13;14;15].

Definition toy_enc (k n : Z) (a p : list Z) : list Z :=
  let body := toy_xor k n 0 p in body ++ toy_tag k n a body.

Fixpoint list_eqb (a b : list Z) : bool :=
  match a, b with
  | [], [] => true
  | x :: a', y :: b' => (x =? y) && list_eqb a' b'
  | _, _ => false
  end.

Definition toy_dec (k n : Z) (a c : list Z) : option (list Z) :=
  if zlen c <? 16 then None
  else let m := Z.to_nat (zlen c - 16) in
       let body := firstn m c in
       if list_eqb (toy_tag k n a body) (skipn m c) then Some (toy_xor k n 0 body) else None.

Definition toy_mask (h : Z) (s : list Z) : list Z :=
  map (fun j => ((h mod 256) * (j + 1) + nth (Z.to_nat j) s 0 + 3 * nth (Z.to_nat (j + 5)) s 0
                 + 5 * nth (Z.to_nat (j + 10)) s 0 + (h / 256) mod 256) mod 256) [0;1;2;3;4].
