(* C02 — history monitor.  Definitions only.

   A *history* is the list of application-level events a client/server run produced, in the
   order the (single-threaded, virtual-time) runtime produced them; harness/hx records it from
   REAL dquic endpoints talking over a fault-injecting in-memory network.  The monitor below
   accepts a history only if the safety predicates of property C02 hold of it; Proofs/C02Monitor.v
   proves that (soundness).  Nothing here models the QUIC stack itself: TLS, AEAD, timers and
   scheduling are outside — the tie to the code is that every recorded history of the real stack
   must be accepted by this (extracted) function.

   side: 0 = client, 1 = server.  Stream data written by side w on stream sid is read by side
   [other w] on the same sid, so a direction of a stream is identified by (reader side, sid).
   Times are virtual milliseconds. *)
From Coq Require Import List NArith ZArith Bool.
From GQ Require Export Lib.Base.
Import ListNotations.
Local Open Scope N_scope.

Inductive ev :=
| AppWrite (side sid : N) (bs : list Z)      (* the stack accepted these bytes from the application *)
| AppShutdown (side sid : N)                 (* the writer called shutdown (recorded before the call) *)
| AppRead (side sid : N) (bs : list Z)       (* a read returned these bytes *)
| AppEos (side sid : N)                      (* a read returned end-of-stream *)
| AppStreamErr (side sid dir : N)            (* a stream operation failed *)
| DgramSend (side : N) (bs : list Z)
| DgramRecv (side : N) (bs : list Z)
| ConnEstablished (side t : N)
| ConnError (side kind t : N)                (* first time the application of [side] is told the connection ended;
                                                kind 0 application close, 1 no viable path / idle, >=2 transport error *)
| OpPending (side id t : N)                  (* an application operation starts waiting *)
| OpCompleted (side id res t : N)            (* … and returns (res 0 ok, 1 error) *)
| Panic (side : N)
| Stall (t : N)                              (* watchdog: no progress for T virtual ms while work is pending *)
| Closed (side t : N)                        (* terminated() resolved for the application of [side] *)
| Bad.                                       (* a line that is not an event *)

Definition other (s : N) : N := if s =? 0 then 1 else 0.

(* ---------------------------------------------------------------- generic runner *)
(* runs [step] over the history; [inr i] = rejected at event index i *)
Fixpoint run {S : Type} (step : S -> ev -> option S) (s : S) (h : list ev) (i : N) : S + N :=
  match h with
  | [] => inl s
  | e :: r => match step s e with
              | Some s' => run step s' r (i + 1)
              | None => inr i
              end
  end.

Definition accepted {S : Type} (r : S + N) : bool := match r with inl _ => true | inr _ => false end.

(* ---------------------------------------------------------------- 1. streams *)
Fixpoint strip_prefix (bs l : list Z) : option (list Z) :=
  match bs with
  | [] => Some l
  | b :: bs' => match l with
                | [] => None
                | x :: l' => if Z.eqb b x then strip_prefix bs' l' else None
                end
  end.

(* state of one direction (reader r, stream sid): written-but-unread bytes, writer shut down, eos seen *)
Record sstate := mkss { pend : list Z; shut : bool; eos : bool }.
Definition ss0 := mkss [] false false.

Definition stream_step (r sid : N) (s : sstate) (e : ev) : option sstate :=
  match e with
  | AppWrite w sid' bs =>
      if (w =? other r) && (sid' =? sid) then
        if shut s then None                       (* a write accepted after shutdown *)
        else Some (mkss (pend s ++ bs) (shut s) (eos s))
      else Some s
  | AppShutdown w sid' =>
      if (w =? other r) && (sid' =? sid) then Some (mkss (pend s) true (eos s)) else Some s
  | AppRead r' sid' bs =>
      if (r' =? r) && (sid' =? sid) then
        match strip_prefix bs (pend s) with        (* exactly the next unread bytes the peer wrote *)
        | Some rest => Some (mkss rest (shut s) (eos s))
        | None => None
        end
      else Some s
  | AppEos r' sid' =>
      if (r' =? r) && (sid' =? sid) then
        match pend s with                           (* only after all bytes, only if the writer shut down *)
        | [] => if shut s then Some (mkss [] true true) else None
        | _ :: _ => None
        end
      else Some s
  | _ => Some s
  end.

(* directions that have a reader-side event / a writer-side event *)
Fixpoint rkeys (h : list ev) : list (N * N) :=
  match h with
  | [] => []
  | AppRead r sid _ :: t => (r, sid) :: rkeys t
  | AppEos r sid :: t => (r, sid) :: rkeys t
  | _ :: t => rkeys t
  end.
Fixpoint wkeys (h : list ev) : list (N * N) :=
  match h with
  | [] => []
  | AppWrite w sid _ :: t => (other w, sid) :: wkeys t
  | AppShutdown w sid :: t => (other w, sid) :: wkeys t
  | _ :: t => wkeys t
  end.

Definition key_eqb (a b : N * N) : bool := (fst a =? fst b) && (snd a =? snd b).
Fixpoint dedup (l : list (N * N)) : list (N * N) :=
  match l with
  | [] => []
  | k :: t => if existsb (key_eqb k) t then dedup t else k :: dedup t
  end.

Definition stream_run (h : list ev) (k : N * N) : sstate + N := run (stream_step (fst k) (snd k)) ss0 h 0.

Definition streams_ok (h : list ev) : bool :=
  forallb (fun k => accepted (stream_run h k)) (dedup (rkeys h)).

(* liveness clause of the bounded profile: everything written was read, every shutdown was seen *)
Definition complete (r : sstate + N) : bool :=
  match r with
  | inl s => match pend s with [] => implb (shut s) (eos s) | _ => false end
  | inr _ => false
  end.
Fixpoint has_established (s : N) (h : list ev) : bool :=
  match h with
  | [] => false
  | ConnEstablished s' _ :: t => (s' =? s) || has_established s t
  | _ :: t => has_established s t
  end.
Definition live_ok (h : list ev) : bool :=
  has_established 0 h && has_established 1 h &&
  forallb (fun k => complete (stream_run h k)) (dedup (wkeys h)).

(* ---------------------------------------------------------------- 2. datagrams *)
Fixpoint bytes_eqb (a b : list Z) : bool :=
  match a, b with
  | [], [] => true
  | x :: a', y :: b' => Z.eqb x y && bytes_eqb a' b'
  | _, _ => false
  end.

Fixpoint remove1 (b : list Z) (l : list (list Z)) : option (list (list Z)) :=
  match l with
  | [] => None
  | x :: t => if bytes_eqb b x then Some t
              else match remove1 b t with Some t' => Some (x :: t') | None => None end
  end.

(* state for reader side r: datagrams the peer sent that r has not received yet *)
Definition dgram_step (r : N) (out : list (list Z)) (e : ev) : option (list (list Z)) :=
  match e with
  | DgramSend s bs => if s =? other r then Some (out ++ [bs]) else Some out
  | DgramRecv r' bs => if r' =? r then remove1 bs out else Some out
  | _ => Some out
  end.
Definition dgram_run (h : list ev) (r : N) := run (dgram_step r) [] h 0.
Definition dgrams_ok (h : list ev) : bool := accepted (dgram_run h 0) && accepted (dgram_run h 1).

(* ---------------------------------------------------------------- 3. termination *)
(* per side: time of the first ConnError, operations still pending (id, start), clock *)
Record tstate := mkts { terr : option N; tops : list (N * N); tclock : N }.
Definition ts0 := mkts None [] 0.

Definition bound_ok (B : N) (err : option N) (start t : N) : bool :=
  match err with
  | None => true
  | Some te => t <=? N.max te start + B
  end.

Definition term_step (B s : N) (st : tstate) (e : ev) : option tstate :=
  match e with
  | ConnError s' _ t =>
      if s' =? s then
        if tclock st <=? t then
          Some (mkts (match terr st with None => Some t | Some te => Some te end) (tops st) t)
        else None
      else Some st
  | OpPending s' id t =>
      if s' =? s then
        if tclock st <=? t then Some (mkts (terr st) ((id, t) :: tops st) t) else None
      else Some st
  | OpCompleted s' id _ t =>
      if s' =? s then
        if tclock st <=? t then
          let mine := filter (fun p => fst p =? id) (tops st) in
          match mine with
          | [] => None                                              (* completion of an unknown operation *)
          | _ :: _ =>
              if forallb (fun p => bound_ok B (terr st) (snd p) t) mine
              then Some (mkts (terr st) (filter (fun p => negb (fst p =? id)) (tops st)) t)
              else None                                             (* told too late *)
          end
        else None
      else Some st
  | _ => Some st
  end.

Definition term_run (B : N) (h : list ev) (s : N) := run (term_step B s) ts0 h 0.

(* at the end of the history nobody who was told about an error still has a pending operation *)
Definition term_end_ok (r : tstate + N) : bool :=
  match r with
  | inl st => match terr st with
              | None => true
              | Some _ => match tops st with [] => true | _ => false end
              end
  | inr _ => false
  end.
Definition term_ok (B : N) (h : list ev) : bool :=
  term_end_ok (term_run B h 0) && term_end_ok (term_run B h 1).

(* ---------------------------------------------------------------- 4. nothing after Closed *)
Definition data_event_of (s : N) (e : ev) : bool :=
  match e with
  | AppWrite s' _ _ | AppRead s' _ _ | AppEos s' _ | DgramSend s' _ | DgramRecv s' _
  | ConnEstablished s' _ => s' =? s
  | _ => false
  end.
Definition closed_step (s : N) (c : bool) (e : ev) : option bool :=
  match e with
  | Closed s' _ => if s' =? s then Some true else Some c
  | _ => if c && data_event_of s e then None else Some c
  end.
Definition closed_run (h : list ev) (s : N) := run (closed_step s) false h 0.
Definition closed_ok (h : list ev) : bool := accepted (closed_run h 0) && accepted (closed_run h 1).

(* ---------------------------------------------------------------- 5. per-event checks *)
Definition side_of (e : ev) : option N :=
  match e with
  | AppWrite s _ _ | AppShutdown s _ | AppRead s _ _ | AppEos s _ | AppStreamErr s _ _
  | DgramSend s _ | DgramRecv s _ | ConnEstablished s _ | ConnError s _ _ | OpPending s _ _
  | OpCompleted s _ _ _ | Closed s _ => Some s
  | Panic _ | Stall _ | Bad => None
  end.
Definition event_ok (e : ev) : bool :=
  match e with
  | Panic _ | Stall _ | Bad => false
  | ConnError s k _ => (s <? 2) && (k <? 2)      (* a transport error means a damaged packet was acted upon *)
  | _ => match side_of e with Some s => s <? 2 | None => false end
  end.
Definition simple_step (u : unit) (e : ev) : option unit := if event_ok e then Some tt else None.
Definition simple_run (h : list ev) := run simple_step tt h 0.
Definition simple_ok (h : list ev) : bool := accepted (simple_run h).

(* ---------------------------------------------------------------- the monitor *)
Definition monitor (live : bool) (B : N) (h : list ev) : bool :=
  simple_ok h && streams_ok h && dgrams_ok h && closed_ok h && term_ok B h &&
  (if live then live_ok h else true).

(* first offending event index and the clause that fails (for the report) *)
Definition idx_of {S : Type} (r : S + N) : option N := match r with inl _ => None | inr i => Some i end.
Definition min_opt (a b : option N) : option N :=
  match a, b with
  | None, x => x
  | x, None => x
  | Some x, Some y => Some (N.min x y)
  end.
Definition first_of (l : list (option N)) : option N := fold_right min_opt None l.

Definition verdict (live : bool) (B : N) (h : list ev) : list Z :=
  let n := lenN h in
  let c1 := idx_of (simple_run h) in
  let c2 := first_of (map (fun k => idx_of (stream_run h k)) (dedup (rkeys h))) in
  let c3 := min_opt (idx_of (dgram_run h 0)) (idx_of (dgram_run h 1)) in
  let c4 := min_opt (idx_of (closed_run h 0)) (idx_of (closed_run h 1)) in
  let c5 := min_opt (idx_of (term_run B h 0)) (idx_of (term_run B h 1)) in
  let first := first_of [c1; c2; c3; c4; c5] in
  let code (c : option N) (k : Z) : Z :=
    match c, first with Some x, Some y => if x =? y then k else 0%Z | _, _ => 0%Z end in
  match first with
  | Some i =>
      let k := Z.max (code c1 5%Z) (Z.max (code c2 1%Z) (Z.max (code c3 2%Z) (Z.max (code c4 4%Z) (code c5 3%Z)))) in
      [0%Z; Z.of_N i; k]
  | None =>
      if negb (term_ok B h) then [0%Z; Z.of_N n; 6%Z]
      else if live && negb (live_ok h) then [0%Z; Z.of_N n; 7%Z]
      else [1%Z; Z.of_N n; 0%Z]
  end.

(* ---------------------------------------------------------------- stream entry point *)
Definition zN (z : Z) : N := Z.to_N z.
Definition decode_ev (op : N * list Z) : ev :=
  match op with
  | (0, s :: sid :: bs) => AppWrite (zN s) (zN sid) bs
  | (1, [s; sid]) => AppShutdown (zN s) (zN sid)
  | (2, s :: sid :: bs) => AppRead (zN s) (zN sid) bs
  | (3, [s; sid]) => AppEos (zN s) (zN sid)
  | (4, [s; sid; d]) => AppStreamErr (zN s) (zN sid) (zN d)
  | (5, s :: bs) => DgramSend (zN s) bs
  | (6, s :: bs) => DgramRecv (zN s) bs
  | (7, [s; t]) => ConnEstablished (zN s) (zN t)
  | (8, [s; k; t]) => ConnError (zN s) (zN k) (zN t)
  | (9, [s; i; t]) => OpPending (zN s) (zN i) (zN t)
  | (10, [s; i; r; t]) => OpCompleted (zN s) (zN i) (zN r) (zN t)
  | (11, [s]) => Panic (zN s)
  | (12, [t]) => Stall (zN t)
  | (13, [s; t]) => Closed (zN s) (zN t)
  | _ => Bad
  end.

(* CASE-line configuration: [live; bound_ms]; the operations are the recorded history;
   one observation: [verdict (1 accepted / 0 rejected); first offending event index; clause] *)
Definition run_conn_monitor (cfg : list Z) (l : list (N * list Z)) : list (list Z) :=
  let live := match cfg with v :: _ => negb (Z.eqb v 0) | [] => false end in
  let B := match cfg with _ :: b :: _ => zN b | _ => 0 end in
  [verdict live B (map decode_ev l)].
