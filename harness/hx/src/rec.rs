//! History recorder.  One line per event, in the order the single-threaded runtime produced
//! them; every line is `<tag> <int args…>` — exactly the operation format of the `conn_monitor`
//! stream (coq/Model/C02Monitor.v), so a recorded history can be fed to the extracted monitor.
//!
//! tags:  0 AppWrite side sid bytes…      1 AppShutdown side sid        2 AppRead side sid bytes…
//!        3 AppEos side sid               4 AppStreamErr side sid dir   5 DgramSend side bytes…
//!        6 DgramRecv side bytes…         7 ConnEstablished side t      8 ConnError side kind t
//!        9 OpPending side id t          10 OpCompleted side id res t  11 Panic side
//!       12 Stall t                      13 Closed side t
//! side: 0 client, 1 server.  t: virtual milliseconds since the start of the run.
use std::sync::{
    Arc, Mutex,
    atomic::{AtomicU64, Ordering},
};

use tokio::time::Instant;

pub const CLIENT: u64 = 0;
pub const SERVER: u64 = 1;

pub struct Rec {
    start: Instant,
    lines: Mutex<Vec<String>>,
    next_op: AtomicU64,
    /// bumped on every application-level event; the watchdog looks at it
    pub progress: AtomicU64,
    /// number of application operations currently pending (work is pending)
    pub pending: AtomicU64,
}

fn hex(b: &[u8]) -> String {
    let mut s = String::with_capacity(1 + 2 * b.len());
    s.push('x');
    for v in b {
        s.push_str(&format!("{v:02x}"));
    }
    s
}

impl Rec {
    pub fn new() -> Arc<Self> {
        Arc::new(Rec {
            start: Instant::now(),
            lines: Mutex::new(Vec::new()),
            next_op: AtomicU64::new(1),
            progress: AtomicU64::new(0),
            pending: AtomicU64::new(0),
        })
    }
    pub fn now_ms(&self) -> u64 {
        self.start.elapsed().as_millis() as u64
    }
    fn push(&self, s: String) {
        self.progress.fetch_add(1, Ordering::Relaxed);
        self.lines.lock().unwrap_or_else(|e| e.into_inner()).push(s);
    }
    pub fn take(&self) -> Vec<String> {
        std::mem::take(&mut *self.lines.lock().unwrap_or_else(|e| e.into_inner()))
    }
    pub fn len(&self) -> usize {
        self.lines.lock().unwrap_or_else(|e| e.into_inner()).len()
    }
    pub fn app_write(&self, side: u64, sid: u64, b: &[u8]) {
        if b.is_empty() {
            self.push(format!("0 {side} {sid}"));
        } else {
            self.push(format!("0 {side} {sid} {}", hex(b)));
        }
    }
    pub fn app_shutdown(&self, side: u64, sid: u64) {
        self.push(format!("1 {side} {sid}"));
    }
    pub fn app_read(&self, side: u64, sid: u64, b: &[u8]) {
        self.push(format!("2 {side} {sid} {}", hex(b)));
    }
    pub fn app_eos(&self, side: u64, sid: u64) {
        self.push(format!("3 {side} {sid}"));
    }
    /// dir: 0 read side failed, 1 write side failed
    pub fn app_stream_err(&self, side: u64, sid: u64, dir: u64) {
        self.push(format!("4 {side} {sid} {dir}"));
    }
    pub fn dgram_send(&self, side: u64, b: &[u8]) {
        self.push(format!("5 {side} {}", hex(b)));
    }
    pub fn dgram_recv(&self, side: u64, b: &[u8]) {
        self.push(format!("6 {side} {}", hex(b)));
    }
    pub fn established(&self, side: u64) {
        self.push(format!("7 {side} {}", self.now_ms()));
    }
    pub fn conn_error(&self, side: u64, kind: u64) {
        self.push(format!("8 {side} {kind} {}", self.now_ms()));
    }
    pub fn op_pending(&self, side: u64) -> u64 {
        let id = self.next_op.fetch_add(1, Ordering::Relaxed);
        self.pending.fetch_add(1, Ordering::Relaxed);
        self.push(format!("9 {side} {id} {}", self.now_ms()));
        id
    }
    /// res: 0 completed normally, 1 completed with an error
    pub fn op_completed(&self, side: u64, id: u64, res: u64) {
        self.pending.fetch_sub(1, Ordering::Relaxed);
        self.push(format!("10 {side} {id} {res} {}", self.now_ms()));
    }
    pub fn panic(&self, side: u64) {
        self.push(format!("11 {side}"));
    }
    pub fn stall(&self) {
        self.push(format!("12 {}", self.now_ms()));
    }
    pub fn closed(&self, side: u64) {
        self.push(format!("13 {side} {}", self.now_ms()));
    }
}
