(* C01 — stream data is delivered reliably, in order, exactly once.
   Only the property theorems live here: each is closed by a lemma of Proofs/Streams.v (per-flow safety),
   Proofs/StreamsSys.v (lifting to the two-endpoint system, cursor) or Proofs/StreamsLive.v (liveness of one
   flow); its statement is pinned here, and its assumptions are printed for the audit.

   [flow_reach c fl P] : the flow [fl] (Sender over the C09 SendBuf model, Recver over the C08 RecvBuf
   model) and the frames [P] it has put on the wire so far, after ANY sequence of application calls
   (write / flush / shutdown / cancel / read / stop), emissions with any capacity, token count and
   credit, and deliveries / acknowledgements / loss reports of any frame of [P], in any order, any
   number of times ([justified]).  No class restriction: with the repaired SendBuf (finding F29 fixed)
   feedback for the empty range of a FIN-only frame is the identity.
   [rc_got] = every byte handed to the reader, [rc_eos] = the reader was told the stream ended. *)
From Coq Require Import List NArith ZArith.
From GQ Require Import Lib.Base Model.SendBuf Model.RecvBuf Model.Streams Proofs.Streams Proofs.StreamsSys Proofs.StreamsLive Proofs.StreamsRound Proofs.StreamsWake.
Import ListNotations.
Local Open Scope N_scope.

(* the invariant is inductive over every justified operation *)
Theorem c01_step_inv : forall c fl P o fl' new out,
  FI c fl P -> justified P o -> flow_step c fl o = (fl', new, out) -> FI c fl' (P ++ new).
Proof. exact flow_step_inv. Qed.

(* reliable, in order, exactly once; end of stream only after the last byte and only after shutdown *)
Theorem c01_safety : forall c fl P, flow_reach c fl P ->
  is_prefix (rc_got (fl_rcv fl)) (written_bytes c fl) /\
  (rc_eos (fl_rcv fl) = true ->
   rc_got (fl_rcv fl) = written_bytes c fl /\ sn_shutcalled (fl_snd fl) = true).
Proof. exact p_c01_safety. Qed.

Theorem c01_frames : forall c fl P off len fin d, flow_reach c fl P -> In (FrS off len fin d) P ->
  d = slice c off len /\ off + len <= wr (fl_snd fl) /\
  (fin = true -> off + len = wr (fl_snd fl) /\ sn_shutcalled (fl_snd fl) = true /\ past_fin (fl_snd fl)).
Proof. exact p_c01_frames. Qed.

Theorem c01_rcvbuf : forall c fl P, flow_reach c fl P ->
  RB.Inv c (rc_buf (fl_rcv fl)) /\ largest (rc_buf (fl_rcv fl)) <= wr (fl_snd fl) /\
  rc_got (fl_rcv fl) = slice c 0 (nread (rc_buf (fl_rcv fl))).
Proof. exact p_c01_rcvbuf. Qed.

Theorem c01_reset_safe : forall c fl P, flow_reach c fl P ->
  is_prefix (rc_got (fl_rcv fl)) (written_bytes c fl) /\
  ((rc_st (fl_rcv fl) = RResetRcvd \/ rc_st (fl_rcv fl) = RResetRead) -> exists err final, In (FrR err final) P) /\
  (forall err final, In (FrR err final) P -> final <= wr (fl_snd fl) /\ is_reset (fl_snd fl)).
Proof. exact p_c01_reset_safe. Qed.

(* ---- lifting: every flow of every state the two-endpoint system reaches, for every op list, is a
   reachable flow over the projection of the pool on its key; hence safety for the system model that the
   correspondence stream `stream_e2e` runs against the implementation *)
Theorem c01_reach_system : forall rot w dirs ops key fl,
  StreamCtl.alookup (sy_flows (sys_exec (sys_init rot w dirs) ops)) key = Some fl ->
  flow_reach (cof key) fl (proj key (sy_pool (sys_exec (sys_init rot w dirs) ops))).
Proof. exact p_c01_reach_system. Qed.

Theorem c01_safety_system : forall rot w dirs ops key fl,
  StreamCtl.alookup (sy_flows (sys_exec (sys_init rot w dirs) ops)) key = Some fl ->
  is_prefix (rc_got (fl_rcv fl)) (written_bytes (cof key) fl) /\
  (rc_eos (fl_rcv fl) = true ->
   rc_got (fl_rcv fl) = written_bytes (cof key) fl /\ sn_shutcalled (fl_snd fl) = true).
Proof. exact p_c01_safety_system. Qed.

(* ---- the cursor: whatever Output.cursor holds, one try_load_data_into_once offers the packet to every
   member of the output set with at least one token; and when it ends without a frame, every listed
   stream was tried and declined *)
Theorem c01_cursor_visits_all : forall rot cursor keys k,
  In k keys -> exists tok, In (k, tok) (load_order rot cursor keys) /\ 1 <= tok.
Proof. exact load_order_visits. Qed.

(* finding F60 in the model: the output set is sorted by stream id ([c01_output_sorted]); as coded
   (rot = false) a cursor stream that has used up its tokens heads the next round again; with the prepared
   repair (rot = true) it is offered the packet only after every other member of the output set *)
Theorem c01_output_sorted : forall s side, asc (map fst (outgoing_keys s side)).
Proof. exact outgoing_keys_asc. Qed.

Theorem c01_cursor_no_rotation : forall c keys, asc keys -> In c keys ->
  exists rest, load_order false (Some (c, 0)) keys = (c, StreamCtl.DEFAULT_TOKENS) :: rest.
Proof. exact p_c01_cursor_no_rotation. Qed.

Theorem c01_cursor_rotates : forall c keys, asc keys -> In c keys ->
  exists front, load_order true (Some (c, 0)) keys = front ++ [(c, StreamCtl.DEFAULT_TOKENS)] /\
    forall k, In k keys -> k <> c -> In (k, StreamCtl.DEFAULT_TOKENS) front.
Proof. exact p_c01_cursor_rotates. Qed.

Theorem c01_emit_none_all_tried : forall skeys cap credit order s s',
  try_streams s skeys order cap credit = (s', None) ->
  forall sid tok key, In (sid, tok) order -> StreamCtl.alookup skeys sid = Some key ->
    (exists fl, StreamCtl.alookup (sy_flows s) key = Some fl) ->
    exists s1 s2 fr out, on_flow s1 key (FTry (pred_of_packet cap sid tok) credit) = Some (s2, fr, out) /\ fo_pick out = None.
Proof. exact try_streams_none_all. Qed.

(* ---- liveness of one flow, in general: from EVERY reachable state without reset whose written length is
   within the stream window, one good round — lose every frame of the pool; emit (any predicate that
   always grants >= 1 byte, i.e. capacity >= 26, any credit >= 1) until nothing more is emitted, the
   boolean excluding fuel exhaustion; deliver every frame; acknowledge every frame — ends in [flow_done]:
   everything written is readable, after shutdown the recver is DataRcvd/DataRead and the sender DataRcvd,
   poll_flush answers Ready and (after shutdown) poll_shutdown answers Ready; two reads with room then
   return exactly the written bytes and, after shutdown, report the end *)
Theorem c01_progress_flow : forall c fl P pred credit fuel fl' P',
  flow_reach c fl P -> ~ is_reset (fl_snd fl) -> wr (fl_snd fl) <= md (fl_snd fl) ->
  good_pred pred -> credit <> 0 ->
  good_round fuel c fl P pred credit = (fl', P', true) ->
  flow_done fl' /\
  forall room fl'' P'', wr (fl_snd fl') < room -> run c fl' P' [FRead room; FRead room] = (fl'', P'') ->
    rc_got (fl_rcv fl'') = written_bytes c fl'' /\ (sn_shutcalled (fl_snd fl'') = true -> rc_eos (fl_rcv fl'') = true).
Proof. exact p_c01_progress_flow. Qed.

(* the same from any drained state, whatever led to it (the form the system-level round uses) *)
Theorem c01_progress_drained : forall c fl P,
  round_ok c fl P -> snd_drained (fl_snd fl) ->
  exists fl3 fl4, run c fl P (flat_map deliver_op P) = (fl3, P) /\ run c fl3 P (flat_map ack_op P) = (fl4, P) /\
                  flow_done fl4 /\ FI c fl4 P /\ ~ is_reset (fl_snd fl4).
Proof. exact finish. Qed.

(* ---- liveness of the two endpoints.  [sys_round fuel cap s] = report every frame of the pool lost; emit on
   the client, then on the server, until an emission finds nothing (the boolean excludes fuel exhaustion);
   deliver every frame of the pool; acknowledge every frame of the pool.
   From EVERY state the system reaches (any op list) that is open, without reset / stop (no sender reset,
   only STREAM frames in the pool) and with every written length within its stream window, the round
   completes ([flow_done]) every flow of the client, every flow of a stream the server has learnt of, and
   every flow that has already left the output set.  (A server flow of a stream the server has not learnt
   of has no Writer, nothing can have been written on it, and nothing is claimed for it.) *)
Theorem c01_progress : forall rot w dirs ops fuel cap s',
  Forall (fun d => d = 0 \/ d = 1) dirs ->
  let s := sys_exec (sys_init rot w dirs) ops in
  sy_closed s = false ->
  (forall key fl, StreamCtl.alookup (sy_flows s) key = Some fl -> ~ is_reset (fl_snd fl) /\ wr (fl_snd fl) <= md (fl_snd fl)) ->
  (forall key f, In (key, f) (sy_pool s) -> is_frs f) ->
  26 <= cap -> cap < two62 -> sys_round fuel cap s = (s', true) ->
  forall key fl, StreamCtl.alookup (sy_flows s) key = Some fl ->
    (key_side key = 0 \/ known s (key_stream key) = true \/ sn_inset (fl_snd fl) = false) ->
    exists fl', StreamCtl.alookup (sy_flows s') key = Some fl' /\ flow_done fl'.
Proof. exact p_c01_progress_reachable. Qed.

(* the same from any calm state, for the members of the output sets; and the state after the round is calm
   again, hence each of its flows is [flow_reach]able and [c01_done_reads] applies to it *)
Theorem c01_progress_system : forall fuel cap s s',
  Calm s -> 26 <= cap -> cap < two62 -> sys_round fuel cap s = (s', true) ->
  forall key fl, StreamCtl.alookup (sy_flows s) key = Some fl ->
    (sn_inset (fl_snd fl) = false \/ listed s 0 key \/ listed s 1 key) ->
    exists fl', StreamCtl.alookup (sy_flows s') key = Some fl' /\ flow_done fl'.
Proof. exact p_c01_progress_system. Qed.

Theorem c01_round_calm : forall fuel cap s, Calm s -> Calm (fst (sys_round fuel cap s)).
Proof. exact sys_round_calm. Qed.

Theorem c01_done_reads : forall c fl P room fl' P',
  flow_reach c fl P -> ~ is_reset (fl_snd fl) -> flow_done fl -> wr (fl_snd fl) < room ->
  run c fl P [FRead room; FRead room] = (fl', P') ->
  rc_got (fl_rcv fl') = written_bytes c fl' /\ (sn_shutcalled (fl_snd fl') = true -> rc_eos (fl_rcv fl') = true).
Proof. exact p_c01_done_reads. Qed.

(* ---- no lost wake-up (the application's side of "eventually becomes readable"): a task that was told Pending by
   Reader::poll_read runs again only when the waker it parked is woken.  In every reachable state, for any
   interleaving whatsoever, a parked reader waker ([rc_readw]) coexists only with a stream on which poll_read
   still answers Pending: as soon as bytes, the end of the stream or a reset can be read - however they got
   there: fresh data, a retransmission filling a hole below the highest received offset, the FIN, the last
   hole of a stream of known size, a RESET_STREAM - the waker has been taken and woken.  And the waker is never
   dropped silently: each operation leaves a parked reader parked or wakes it exactly once. *)
Theorem c01_no_lost_wakeup : forall c fl P room r' z out,
  flow_reach c fl P -> rc_readw (fl_rcv fl) = true ->
  rc_poll_read (fl_rcv fl) room = (r', z, out) -> z = 0%Z /\ out = [] /\ rc_readw r' = true.
Proof. exact p_c01_no_lost_wakeup. Qed.

Theorem c01_wake_or_parked : forall c fl o fl' new out,
  flow_step c fl o = (fl', new, out) ->
  (rc_readw (fl_rcv fl) = true ->
     (rc_readw (fl_rcv fl') = true /\ rc_wakes (fl_rcv fl') = rc_wakes (fl_rcv fl)) \/
     (rc_readw (fl_rcv fl') = false /\ rc_wakes (fl_rcv fl') = rc_wakes (fl_rcv fl) + 1)) /\
  (rc_readw (fl_rcv fl) = false -> rc_wakes (fl_rcv fl') = rc_wakes (fl_rcv fl)).
Proof. exact p_c01_wake_or_parked. Qed.

Theorem c01_no_lost_wakeup_system : forall rot w dirs ops key fl room r' z out,
  StreamCtl.alookup (sy_flows (sys_exec (sys_init rot w dirs) ops)) key = Some fl ->
  rc_readw (fl_rcv fl) = true ->
  rc_poll_read (fl_rcv fl) room = (r', z, out) -> z = 0%Z /\ out = [] /\ rc_readw r' = true.
Proof. exact p_c01_no_lost_wakeup_system. Qed.

(* non-vacuity: the second of two frames overtakes the first, the reader polls and parks on the hole (no FIN);
   the first frame then fills the hole BELOW the highest received offset (0 fresh bytes for flow control):
   the parked reader is woken by that very delivery and the stream is readable *)
Definition parked_ops : list op :=
  [OWrite 0 0 56; OEmit 0 30 30; OEmit 0 30 30; ODeliver 1; ORead 1 0 7].

Example c01_no_lost_wakeup_nonvacuous :
  (match StreamCtl.alookup (sy_flows (sys_exec (sys_init false 1048576 [0]) parked_ops)) 0 with
   | Some fl => rc_readw (fl_rcv fl) = true /\ rc_wakes (fl_rcv fl) = 0 /\ largest (rc_buf (fl_rcv fl)) = 55
   | None => False end) /\
  (match StreamCtl.alookup (sy_flows (sys_exec (sys_init false 1048576 [0]) (parked_ops ++ [ODeliver 0]))) 0 with
   | Some fl => rc_readw (fl_rcv fl) = false /\ rc_wakes (fl_rcv fl) = 1 /\ is_readable (rc_buf (fl_rcv fl)) = true
   | None => False end) /\
  nth 5 (sys_run (sys_init false 1048576 [0]) (parked_ops ++ [ODeliver 0])) [] = [0; 0; 1; 0; 0]%Z.
Proof. vm_compute. repeat split. Qed.

(* ---- the two endpoints: a schedule with two streams, chunked writes, small packets, a lost frame that
   is retransmitted at different boundaries, FIN delivered before data, duplicates, acks after loss, and
   then the fair round (lose all, emit until drained, deliver all, ack all): everything written is read,
   the end is reported, flush and shutdown are Ready (liveness on this instance; the general statements are
   c01_progress_flow and c01_progress above) *)
Definition fair_round (cap : N) (n_emit n_pool : nat) : list op :=
  map OLose (seqN n_pool) ++ repeat (OEmit 0 cap cap) n_emit ++ repeat (OEmit 1 cap cap) n_emit
  ++ map ODeliver (seqN (n_pool + 2 * n_emit)) ++ map OAck (seqN (n_pool + 2 * n_emit)).

Definition demo_ops : list op :=
  [OWrite 0 0 40; OWrite 0 1 25; OEmit 0 30 30; OEmit 0 30 30; OWrite 0 0 10; OShutdown 0 0; OShutdown 0 1;
   OEmit 0 30 30; OEmit 0 30 30; OEmit 0 30 30; OLose 1; OLose 3; ODeliver 4; ODeliver 4; ODeliver 2; ORead 1 0 5;
   OEmit 0 41 41; OAck 3; OAck 0; ODeliver 0; OWrite 1 0 9; OShutdown 1 0; OEmit 1 64 64; OLose 6]
  ++ fair_round 33 6 8
  ++ [ORead 1 0 100; ORead 1 0 100; ORead 1 1 100; ORead 1 1 100; ORead 0 0 100; ORead 0 0 100].

Definition flow_done_b (s : sys) (key : N) : bool :=
  match StreamCtl.alookup (sy_flows s) key with
  | Some fl =>
    (lenN (rc_got (fl_rcv fl)) =? wr (fl_snd fl)) && rc_eos (fl_rcv fl)
    && (match sn_st (fl_snd fl) with SDataRcvd => true | _ => false end)
    && (match snd_poll_flush (fl_snd fl) with (_, 1%Z) => true | _ => false end)
    && (match snd_poll_shutdown (fl_snd fl) with (_, 1%Z) => true | _ => false end)
  | None => false
  end.

Example c01_progress_instance :
  let s := sys_exec (sys_init false 1048576 [0; 1]) demo_ops in
  flow_done_b s 0 = true /\ flow_done_b s 1 = true /\ flow_done_b s 2 = true /\
  (exists fl, StreamCtl.alookup (sy_flows s) 0 = Some fl /\ wr (fl_snd fl) = 50 /\ rc_got (fl_rcv fl) = slice (cof 0) 0 50).
Proof. vm_compute. repeat split. eexists. repeat split. Qed.

(* non-vacuity of c01_progress: on the state reached by the schedule above before its closing round, the
   round function itself ends with the boolean true (fuel 40, capacity 33) and completes the three flows *)
Definition demo_prefix : list op := firstn 24 demo_ops.

Example c01_progress_nonvacuous :
  let s := sys_exec (sys_init false 1048576 [0; 1]) demo_prefix in
  sy_closed s = false /\ snd (sys_round 40 33 s) = true /\
  (let s' := fst (sys_round 40 33 s) in
   existsb (fun key => match StreamCtl.alookup (sy_flows s') key with
                       | Some fl => negb ((nread (rc_buf (fl_rcv fl)) + available (rc_buf (fl_rcv fl)) =? wr (fl_snd fl))
                                          && match sn_st (fl_snd fl) with SDataRcvd => true | _ => false end)
                       | None => true end) [0; 1; 2] = false).
Proof. vm_compute. repeat split. Qed.

Print Assumptions c01_step_inv.
Print Assumptions c01_safety.
Print Assumptions c01_frames.
Print Assumptions c01_rcvbuf.
Print Assumptions c01_reset_safe.
Print Assumptions c01_reach_system.
Print Assumptions c01_safety_system.
Print Assumptions c01_cursor_visits_all.
Print Assumptions c01_output_sorted.
Print Assumptions c01_cursor_no_rotation.
Print Assumptions c01_cursor_rotates.
Print Assumptions c01_emit_none_all_tried.
Print Assumptions c01_progress_flow.
Print Assumptions c01_progress_drained.
Print Assumptions c01_progress.
Print Assumptions c01_progress_system.
Print Assumptions c01_round_calm.
Print Assumptions c01_done_reads.
Print Assumptions c01_no_lost_wakeup.
Print Assumptions c01_wake_or_parked.
Print Assumptions c01_no_lost_wakeup_system.
Print Assumptions c01_no_lost_wakeup_nonvacuous.
Print Assumptions c01_progress_instance.
Print Assumptions c01_progress_nonvacuous.
