(* C18 — peer transport parameters are validated and bound to on-wire connection IDs.
   Only the property theorems live here; proofs are in Proofs/ParamsState.v and Proofs/Packets.v. *)
From Coq Require Import List ZArith NArith.
From GQ Require Import Lib.Wire Model.Varint Model.Frames Model.Params Model.ParamsState Proofs.Packets Proofs.ParamsState.
Import ListNotations.
Local Open Scope Z_scope.

(* in BOTH arrival orders of the TLS extension and the first Initial packet the outcome is the same;
   the connection is ready iff the blob parses and the declared connection ids equal the observed
   ones, and otherwise a transport-parameter error is raised (never a silent pending state) *)
Theorem c18_ready_iff : forall r idle origin blob cid,
  let s0 := ps_init r idle origin in
  let a := ps_run s0 [PsParams blob; PsScid cid] in
  let b := ps_run s0 [PsScid cid; PsParams blob] in
  outcome a = outcome b /\
  (ps_ready a = true <-> accept r origin blob cid) /\
  (ps_failed a = true <-> ~ accept r origin blob cid).
Proof. exact p_c18_ready_iff. Qed.

Theorem c18_not_ready_early : forall r idle origin o, ps_ready (ps_step (ps_init r idle origin) o) = false.
Proof. exact p_c18_not_ready_early. Qed.

(* what "the blob parses" means: every id legal for the sender's role, typed as the table says,
   inside its bound, and the mandatory ids present *)
Theorem c18_parse_valid : forall r buf m, parse_params r buf = PaOk m ->
  map_valid r m /\ (forall id, In id (required_of r) -> exists v, pm_get m id = Some v).
Proof. exact p_c18_parse_valid. Qed.

(* the ranges in the table regenerated from the Rust source are exactly RFC 9000 §18.2 *)
Theorem c18_bounds_rfc : forall row, In row param_table -> p_bound row = rfc_bound (p_id row).
Proof. exact p_c18_bounds_rfc. Qed.

(* every parameter failure is the TRANSPORT_PARAMETER_ERROR connection error *)
Theorem c18_error_kind : param_error_kind = EK_TRANSPORT_PARAMETER.
Proof. exact p_c03_param_error_kind. Qed.

(* effective idle timeout: the smaller non-zero value; "no timeout" only when both are zero *)
Theorem c18_idle : forall s m rem v, ps_ready s = true -> ps_remote s = Some m ->
  num_of (pm_get_d m PID_MAX_IDLE_TIMEOUT) = Some rem -> 0 <= rem -> 0 <= ps_local_idle s ->
  negotiated_idle s = Some v ->
  (ps_local_idle s = 0 /\ rem = 0 -> v = -1) /\
  (ps_local_idle s = 0 /\ 0 < rem -> v = rem) /\
  (0 < ps_local_idle s /\ rem = 0 -> v = ps_local_idle s) /\
  (0 < ps_local_idle s /\ 0 < rem -> v = Z.min (ps_local_idle s) rem).
Proof. exact p_c18_idle. Qed.

(* remembered parameters are honoured for 0-RTT iff none of the eight limits exceeds the new one;
   the `unreachable!` arm of the check cannot be hit for parsed parameter sets *)
Theorem c18_0rtt : forall old new b, is_0rtt_accepted old new = Some b ->
  (b = true <-> forall id, In id zero_rtt_ids ->
     exists o n, num_of (pm_get_d old id) = Some o /\ num_of (pm_get_d new id) = Some n /\ o <= n).
Proof. exact p_c18_0rtt_spec. Qed.

Theorem c18_0rtt_total : forall old new, map_valid Server old -> map_valid Server new ->
  exists b, is_0rtt_accepted old new = Some b.
Proof. exact p_c18_0rtt_total. Qed.

(* non-vacuity: a server blob (odcid 01 02, iscid 09) accepted by a client in both orders; a blob
   with initial_max_streams_bidi = 2^60 rejected *)
Example c18_nonvacuous :
  let good := [0; 2; 1; 2; 15; 1; 9; 8; 2; 64; 100] in
  let bad := [0; 2; 1; 2; 15; 1; 9; 8; 8; 208; 0; 0; 0; 0; 0; 0; 0] in
  outcome (ps_run (ps_init Client 30000 [1; 2]) [PsParams good; PsScid [9]]) = (true, false) /\
  outcome (ps_run (ps_init Client 30000 [1; 2]) [PsScid [9]; PsParams good]) = (true, false) /\
  outcome (ps_run (ps_init Client 30000 [1; 2]) [PsScid [7]; PsParams good]) = (false, true) /\
  outcome (ps_run (ps_init Client 30000 [1; 2]) [PsParams bad; PsScid [9]]) = (false, true).
Proof. vm_compute. repeat split. Qed.

Print Assumptions c18_ready_iff.
Print Assumptions c18_not_ready_early.
Print Assumptions c18_parse_valid.
Print Assumptions c18_bounds_rfc.
Print Assumptions c18_error_kind.
Print Assumptions c18_idle.
Print Assumptions c18_0rtt.
Print Assumptions c18_0rtt_total.
Print Assumptions c18_nonvacuous.
