(* Proofs about Model/Streams.v (property C01).  The C08 (Proofs/RecvBuf.v) and C09
   (Proofs/SendBuf.v) developments are imported, not copied: the sender half of the flow invariant
   is C09's [Inv /\ Tight] carried through step_pick / step_ack / step_loss / step_all, the recver
   half is C08's [Inv] carried through recv_spec / try_read_spec. *)
From Coq Require Import List NArith ZArith Bool Lia.
From GQ Require Import Lib.Base Lib.Slice Model.SendBuf Model.RecvBuf Model.Streams.
From GQ Require Proofs.SendBuf Proofs.RecvBuf Model.StreamCtl.
Import ListNotations.
Local Open Scope N_scope.

Module SB := GQ.Proofs.SendBuf.
Module RB := GQ.Proofs.RecvBuf.

Arguments N.add : simpl never.
Arguments N.sub : simpl never.
Arguments N.min : simpl never.
Arguments N.max : simpl never.

(* ------------------------------------------------------------------ *)
(* sender half *)

Definition sb_ok (b : sndbuf) : Prop := SB.Inv b /\ SB.Tight b.

Definition past_fin (s : sender) : Prop := sn_st s <> SReady /\ sn_st s <> SSending.

Definition pred_pos (pred : N -> option N) : Prop := forall o a, pred o = Some a -> 1 <= a.

Lemma sb_ok_init w : sb_ok (with_capacity w).
Proof. exact (SB.Inv_init w). Qed.

Lemma sb_write b n b' : sb_ok b -> write b n = Some b' -> sb_ok b' /\ written b' = written b + n.
Proof.
  intros [HI HT] E.
  assert (Ex : sb_exec (fun _ => 0%Z) b (SbWrite n) = (Some b', OUnit)) by (cbn [sb_exec]; rewrite E; reflexivity).
  assert (Hc : SB.class_okb true b (SbWrite n) = true) by reflexivity.
  destruct (SB.step_all true _ _ _ _ _ HI Hc Ex) as (S1 & S2 & _ & _ & S5).
  split; [split; [exact S1|apply S5; [reflexivity|exact HT]]|exact S2].
Qed.

Lemma sb_pick c b pred flow b' s e fr d :
  sb_ok b -> pred_pos pred -> pick_up c b pred flow = UpOk b' s e fr d ->
  sb_ok b' /\ written b' = written b /\ s < e /\ e <= written b /\ d = slice c s (e - s).
Proof.
  intros [HI HT] Hp E.
  destruct (SB.step_pick _ _ _ _ _ _ _ _ _ HI Hp E) as (P1 & P2 & _ & _ & P5).
  destruct (P5 HT) as [T' Hd].
  destruct (SB.pick_up_facts _ _ _ _ _ _ _ _ _ HI Hp E) as (a & _ & Hpost & _).
  destruct Hpost as (_ & _ & Q3 & Q4 & _).
  destruct HI as [_ Hsz _].
  split; [split; assumption|]. split; [exact P2|]. split; [exact Q3|]. split; [lia|exact Hd].
Qed.

Lemma sb_ack b s e b' : sb_ok b -> on_data_acked b s e = Some b' -> sb_ok b' /\ written b' = written b.
Proof.
  intros [HI HT] E.
  destruct (SB.step_ack _ _ _ _ HI E) as (A1 & A2 & _ & _ & A5 & _).
  split; [split; [exact A1|exact (A5 HT)]|exact A2].
Qed.

Lemma sb_loss b s e b' : sb_ok b -> may_loss_data b s e = Some b' -> sb_ok b' /\ written b' = written b.
Proof.
  intros [HI HT] E.
  destruct (SB.step_loss _ _ _ _ HI E) as (A1 & A2 & _ & _ & A5 & _).
  split; [split; [exact A1|exact (A5 HT)]|exact A2].
Qed.

Lemma sb_sent_le b : sb_ok b -> sent b <= written b.
Proof.
  intros [[Hwf Hsz _] _]. destruct (SB.sent_of_spec _ Hwf) as (S1 & _). unfold sent. lia.
Qed.

(* ------------------------------------------------------------------ *)
(* the invariant of one flow; [P] = the frames of this flow in the pool *)

Definition wr (s : sender) : N := written (sn_buf s).
Definition is_reset (s : sender) : Prop := sn_st s = SResetSent \/ sn_st s = SResetRcvd.

Definition frame_ok (c : N -> Z) (s : sender) (f : fframe) : Prop :=
  match f with
  | FrS off len fin d =>
    d = slice c off len /\ off + len <= wr s /\
    (fin = true -> off + len = wr s /\ sn_shutcalled s = true /\ past_fin s) /\
    (len = 0 -> fin = true)
  | FrR err final => final <= wr s /\ is_reset s
  | FrStop _ => True
  end.

Definition SI (c : N -> Z) (s : sender) (P : list fframe) : Prop :=
  sb_ok (sn_buf s) /\ (forall f, In f P -> frame_ok c s f) /\
  (sn_shutw s = true -> sn_shutcalled s = true) /\ (sn_st s = SDataSent -> sn_shutcalled s = true).

Definition RI (c : N -> Z) (r : recver) (W : N) (pf sc : Prop) (P : list fframe) : Prop :=
  RB.Inv c (rc_buf r) /\ largest (rc_buf r) <= W /\
  rc_got r = slice c 0 (nread (rc_buf r)) /\
  (match rc_st r with
   | RSizeKnown f => f = W /\ pf /\ sc
   | RDataRcvd f => f = W /\ pf /\ sc /\ nread (rc_buf r) + available (rc_buf r) = f
   | RDataRead => nread (rc_buf r) = W /\ pf /\ sc
   | _ => True
   end) /\
  (rc_eos r = true -> rc_st r = RDataRead) /\
  ((rc_st r = RResetRcvd \/ rc_st r = RResetRead) -> exists err final, In (FrR err final) P).

Definition FI (c : N -> Z) (fl : flow) (P : list fframe) : Prop :=
  SI c (fl_snd fl) P /\
  RI c (fl_rcv fl) (wr (fl_snd fl)) (past_fin (fl_snd fl)) (sn_shutcalled (fl_snd fl) = true) P.

(* how a sender operation may move the sender, as far as the invariant can see *)
Definition snd_mono (s s' : sender) : Prop :=
  wr s <= wr s' /\ (past_fin s -> past_fin s' /\ wr s' = wr s) /\
  (sn_shutcalled s = true -> sn_shutcalled s' = true) /\ (is_reset s -> is_reset s').

Lemma snd_mono_refl s : snd_mono s s.
Proof. unfold snd_mono. split; [lia|]. split; [auto|]. split; auto. Qed.

Lemma SI_trans c s s' P :
  SI c s P -> sb_ok (sn_buf s') -> snd_mono s s' ->
  (sn_shutw s' = true -> sn_shutcalled s' = true) -> (sn_st s' = SDataSent -> sn_shutcalled s' = true) ->
  SI c s' P.
Proof.
  intros (_ & HF & _ & _) Hok (M1 & M2 & M3 & M4) H3 H4.
  split; [exact Hok|]. split; [|split; assumption].
  intros f Hin. specialize (HF f Hin). destruct f as [off len fin d|err final|err]; cbn [frame_ok] in *.
  - destruct HF as (F1 & F2 & F3 & F4). split; [exact F1|]. split; [lia|]. split; [|exact F4].
    intros Hf. destruct (F3 Hf) as (G1 & G2 & G3). destruct (M2 G3) as [G4 G5].
    split; [lia|]. split; [auto|exact G4].
  - destruct HF as [F1 F2]. split; [lia|auto].
  - exact I.
Qed.

Lemma SI_add c s P fs : SI c s P -> (forall f, In f fs -> frame_ok c s f) -> SI c s (P ++ fs).
Proof.
  intros (H1 & H2 & H3 & H4) Hn. split; [exact H1|]. split; [|split; assumption].
  intros f Hin. apply in_app_or in Hin. destruct Hin; auto.
Qed.

Lemma RI_mono c r W pf sc P W' (pf' sc' : Prop) P' :
  RI c r W pf sc P -> W <= W' -> (pf -> pf' /\ W' = W) -> (sc -> sc') -> incl P P' ->
  RI c r W' pf' sc' P'.
Proof.
  intros (R1 & R2 & R3 & R4 & R5 & R6) HW Hpf Hsc Hin.
  split; [exact R1|]. split; [lia|]. split; [exact R3|]. split; [|split; [exact R5|]].
  - destruct (rc_st r); try exact I.
    + destruct R4 as (A & B & C). destruct (Hpf B). repeat split; auto; lia.
    + destruct R4 as (A & B & C & D). destruct (Hpf B). repeat split; auto; lia.
    + destruct R4 as (A & B & C). destruct (Hpf B). repeat split; auto; lia.
  - intros Hr. destruct (R6 Hr) as (e & f & Hf). exists e, f. apply Hin. exact Hf.
Qed.

Lemma FI_snd c fl P s' fs :
  FI c fl P -> SI c s' (P ++ fs) -> snd_mono (fl_snd fl) s' ->
  FI c (mkflow s' (fl_rcv fl)) (P ++ fs).
Proof.
  intros [HS HR] HS' (M1 & M2 & M3 & M4). split; [exact HS'|]. cbn [fl_snd fl_rcv].
  eapply RI_mono; [exact HR|exact M1|exact M2|exact M3|]. apply incl_appl, incl_refl.
Qed.

(* ---- the sender operations *)
Ltac sn_simpl := cbn [sn_st sn_buf sn_fin sn_shutw sn_flushw sn_writew sn_wakes sn_inset sn_shutcalled
                      snd_set_buf snd_set_st snd_set_fin to_data_sent wr] in *.

Lemma pf_not_ready s : past_fin s -> sn_st s = SReady \/ sn_st s = SSending -> False.
Proof. intros [A B] [C|C]; congruence. Qed.

Lemma snd_mono_same s s' :
  sn_st s' = sn_st s -> sn_buf s' = sn_buf s -> sn_shutcalled s' = sn_shutcalled s -> snd_mono s s'.
Proof.
  intros E1 E2 E3. unfold snd_mono, wr, past_fin, is_reset. rewrite E1, E2, E3.
  split; [lia|]. split; [intro H; split; [exact H|reflexivity]|]. split; auto.
Qed.

Lemma SI_same c s s' P :
  sn_st s' = sn_st s -> sn_buf s' = sn_buf s -> sn_shutcalled s' = sn_shutcalled s ->
  (sn_shutw s' = true -> sn_shutw s = true) -> SI c s P -> SI c s' P /\ snd_mono s s'.
Proof.
  intros E1 E2 E3 E4 HS. pose proof (snd_mono_same _ _ E1 E2 E3) as M. split; [|exact M].
  pose proof HS as (Hok & HF & H3 & H4).
  eapply SI_trans; [exact HS|rewrite E2; exact Hok|exact M| |].
  - intro H. rewrite E3. auto.
  - intro H. rewrite E3. apply H4. congruence.
Qed.

Lemma step_write c s P n s' z :
  SI c s P -> snd_poll_write s n = (s', z) -> SI c s' P /\ snd_mono s s'.
Proof.
  intros HS E. pose proof HS as (Hok & HF & H3 & H4). unfold snd_poll_write in E.
  assert (Go : sn_st s = SReady \/ sn_st s = SSending ->
               (if sn_shutw s then (s, 2%Z)
                else if negb (has_remaining (sn_buf s)) then
                  (mksnd (sn_st s) (sn_buf s) (sn_fin s) (sn_shutw s) (sn_flushw s) true (sn_wakes s) (sn_inset s) (sn_shutcalled s), 0%Z)
                else match write (sn_buf s) n with Some b => (snd_set_buf s b, 1%Z) | None => (s, (-7)%Z) end) = (s', z) ->
               SI c s' P /\ snd_mono s s').
  { intros Hst E'. destruct (sn_shutw s) eqn:Esh.
    - injection E' as <- <-. split; [exact HS|apply snd_mono_refl].
    - destruct (negb (has_remaining (sn_buf s))).
      + injection E' as <- <-. apply SI_same; sn_simpl; auto; congruence.
      + destruct (write (sn_buf s) n) as [b|] eqn:Ew.
        * injection E' as <- <-. destruct (sb_write _ _ _ Hok Ew) as [Hok' Hw].
          assert (M : snd_mono s (snd_set_buf s b)).
          { unfold snd_mono, wr, past_fin, is_reset; sn_simpl. split; [lia|]. split; [|split; auto].
            intros Hp. exfalso. eapply pf_not_ready; eauto. }
          split; [|exact M]. eapply SI_trans; [exact HS| |exact M| |]; sn_simpl; auto; try congruence.
        * injection E' as <- <-. split; [exact HS|apply snd_mono_refl]. }
  destruct (sn_st s) eqn:Est; try (injection E as <- <-; split; [exact HS|apply snd_mono_refl]).
  - apply Go; auto.
  - apply Go; auto.
Qed.

(* an operation that keeps the buffer *)
Lemma SI_st c s s' P :
  SI c s P -> sn_buf s' = sn_buf s ->
  (sn_shutcalled s = true -> sn_shutcalled s' = true) ->
  (sn_shutw s' = true -> sn_shutcalled s' = true) -> (sn_st s' = SDataSent -> sn_shutcalled s' = true) ->
  (past_fin s -> past_fin s') -> (is_reset s -> is_reset s') ->
  SI c s' P /\ snd_mono s s'.
Proof.
  intros HS E1 E2 E3 E4 E5 E6. pose proof HS as (Hok & _).
  assert (M : snd_mono s s').
  { unfold snd_mono, wr. rewrite E1. split; [lia|]. split; [intro H; split; [auto|reflexivity]|]. split; auto. }
  split; [|exact M]. eapply SI_trans; [exact HS|rewrite E1; exact Hok|exact M|exact E3|exact E4].
Qed.

Ltac pf_tac := unfold past_fin, is_reset in *; sn_simpl;
  repeat match goal with H : _ /\ _ |- _ => destruct H end; try (split; congruence); try congruence; auto.

Lemma step_flush c s P s' z : SI c s P -> snd_poll_flush s = (s', z) -> SI c s' P /\ snd_mono s s'.
Proof.
  intros HS E. pose proof HS as (Hok & HF & H3 & H4). unfold snd_poll_flush in E.
  destruct (sn_st s) eqn:Est; try (injection E as <- <-; split; [exact HS|apply snd_mono_refl]).
  - destruct (is_all_rcvd (sn_buf s)); injection E as <- <-; [split; [exact HS|apply snd_mono_refl]|].
    apply SI_same; sn_simpl; auto.
  - destruct (is_all_rcvd (sn_buf s)); injection E as <- <-; [split; [exact HS|apply snd_mono_refl]|].
    apply SI_same; sn_simpl; auto.
  - injection E as <- <-. apply SI_same; sn_simpl; auto.
Qed.

Lemma step_shutdown c s P s' z : SI c s P -> snd_poll_shutdown s = (s', z) -> SI c s' P /\ snd_mono s s'.
Proof.
  intros HS E. unfold snd_poll_shutdown in E.
  destruct (sn_st s) eqn:Est; try (injection E as <- <-; split; [exact HS|apply snd_mono_refl]);
    injection E as <- <-; apply SI_st; sn_simpl; auto; unfold past_fin, is_reset; sn_simpl; auto.
  all: try (rewrite Est; auto).
Qed.

Lemma step_cancel c s P s' f err :
  SI c s P -> snd_cancel s = (s', f) ->
  SI c s' (P ++ match f with Some fs => [FrR err fs] | None => [] end) /\ snd_mono s s'.
Proof.
  intros HS E. pose proof HS as (Hok & HF & H3 & H4). unfold snd_cancel in E.
  assert (Go : forall s0, s0 = mksnd SResetSent (sn_buf s) (sn_fin s) false false false (sn_wakes s) (sn_inset s) (sn_shutcalled s) ->
               SI c s0 (P ++ [FrR err (sent (sn_buf s))]) /\ snd_mono s s0).
  { intros s0 ->. destruct (SI_st c s (mksnd SResetSent (sn_buf s) (sn_fin s) false false false (sn_wakes s) (sn_inset s) (sn_shutcalled s)) P HS) as [A B];
      sn_simpl; auto; try discriminate; try (unfold past_fin, is_reset; sn_simpl; intros; split; discriminate); try (unfold is_reset; sn_simpl; auto).
    split; [|exact B]. apply SI_add; [exact A|]. intros f0 [<-|[]]. cbn [frame_ok]. unfold wr, is_reset; sn_simpl.
    split; [apply sb_sent_le; exact Hok|auto]. }
  destruct (sn_st s) eqn:Est; try (injection E as <- <-; rewrite app_nil_r; split; [exact HS|apply snd_mono_refl]);
    injection E as <- <-; apply Go; reflexivity.
Qed.

Lemma step_be_stopped c s P s' f err :
  SI c s P -> snd_be_stopped s = (s', f) ->
  SI c s' (P ++ match f with Some fs => [FrR err fs] | None => [] end) /\ snd_mono s s'.
Proof.
  intros HS E. pose proof HS as (Hok & HF & H3 & H4). unfold snd_be_stopped in E.
  assert (Go : forall wk fs, fs <= written (sn_buf s) ->
               SI c (mksnd SResetSent (sn_buf s) (sn_fin s) false false false wk (sn_inset s) (sn_shutcalled s)) (P ++ [FrR err fs]) /\
               snd_mono s (mksnd SResetSent (sn_buf s) (sn_fin s) false false false wk (sn_inset s) (sn_shutcalled s))).
  { intros wk fs Hfs. destruct (SI_st c s (mksnd SResetSent (sn_buf s) (sn_fin s) false false false wk (sn_inset s) (sn_shutcalled s)) P HS) as [A B];
      sn_simpl; auto; try discriminate; try (unfold past_fin, is_reset; sn_simpl; intros; split; discriminate); try (unfold is_reset; sn_simpl; auto).
    split; [|exact B]. apply SI_add; [exact A|]. intros f0 [<-|[]]. cbn [frame_ok]. unfold wr, is_reset; sn_simpl.
    split; [exact Hfs|auto]. }
  destruct (sn_st s) eqn:Est; try (injection E as <- <-; rewrite app_nil_r; split; [exact HS|apply snd_mono_refl]);
    injection E as <- <-; apply Go; [apply sb_sent_le; exact Hok|apply sb_sent_le; exact Hok|lia].
Qed.

Lemma step_reset_acked c s P s' ok : SI c s P -> snd_on_reset_acked s = (s', ok) -> SI c s' P /\ snd_mono s s'.
Proof.
  intros HS E. pose proof HS as (Hok & HF & H3 & H4). unfold snd_on_reset_acked in E.
  destruct (sn_st s) eqn:Est; try (injection E as <- <-; split; [exact HS|apply snd_mono_refl]);
    injection E as <- <-; apply SI_st; sn_simpl; auto; try discriminate;
    unfold past_fin, is_reset; sn_simpl; intros; try (split; discriminate); auto.
Qed.

(* a buffer change that keeps the written length, in a state that stays put or moves past FIN *)
Lemma SI_buf c s s' P :
  SI c s P -> sb_ok (sn_buf s') -> written (sn_buf s') = written (sn_buf s) ->
  (sn_shutcalled s = true -> sn_shutcalled s' = true) ->
  (sn_shutw s' = true -> sn_shutcalled s' = true) -> (sn_st s' = SDataSent -> sn_shutcalled s' = true) ->
  (past_fin s -> past_fin s') -> (is_reset s -> is_reset s') ->
  SI c s' P /\ snd_mono s s'.
Proof.
  intros HS Hok E1 E2 E3 E4 E5 E6.
  assert (M : snd_mono s s').
  { unfold snd_mono, wr. rewrite E1. split; [lia|]. split; [intro H; split; [auto|reflexivity]|]. split; auto. }
  split; [|exact M]. eapply SI_trans; [exact HS|exact Hok|exact M|exact E3|exact E4].
Qed.

Definition pick_frame (p : option pickd) : list fframe :=
  match p with Some k => [FrS (pk_start k) (pk_end k - pk_start k) (pk_eos k) (pk_data k)] | None => [] end.

Lemma step_try c s P pred credit s' p :
  SI c s P -> pred_pos pred -> snd_try_load c s pred credit = (s', p) ->
  SI c s' (P ++ pick_frame p) /\ snd_mono s s'.
Proof.
  intros HS Hp E. pose proof HS as (Hok & HF & H3 & H4). unfold snd_try_load in E.
  assert (None_case : forall s0, sn_buf s0 = sn_buf s -> sn_shutcalled s0 = sn_shutcalled s -> sn_shutw s0 = sn_shutw s ->
            (sn_st s0 = sn_st s \/ ((sn_st s = SReady \/ sn_st s = SSending) /\ sn_st s0 = SSending)) ->
            SI c s0 (P ++ pick_frame None) /\ snd_mono s s0).
  { intros s0 E1 E2 E3 E4. cbn [pick_frame]. rewrite app_nil_r. apply SI_st; auto.
    - rewrite E2; auto.
    - rewrite E3, E2; auto.
    - rewrite E2. intro H. apply H4. destruct E4 as [E4|[_ E4]]; congruence.
    - unfold past_fin. intros [A B]. destruct E4 as [E4|[[E4|E4] _]]; try congruence. rewrite E4; auto.
    - unfold is_reset. intros [A|A]; destruct E4 as [E4|[[E4|E4] _]]; try congruence; rewrite E4; auto. }
  assert (Early : sn_st s = SReady \/ sn_st s = SSending ->
    (let s1 := snd_set_st s SSending in
     let b := sn_buf s in
     match pick_up c b pred credit with
     | UpOk b' st e fr d =>
       let eos := sn_shutw s && (e =? written b) in
       (if eos then to_data_sent s1 b' else snd_set_buf s1 b', Some (mkpick st e fr eos d))
     | UpErr _ _ _ =>
       if sn_shutw s && (written b =? sent b) then
         match pred (sent b) with
         | Some _ => (to_data_sent s1 b, Some (mkpick (sent b) (sent b) false true []))
         | None => (s1, None)
         end
       else (s1, None)
     | UpPV => (s1, None)
     end) = (s', p) -> SI c s' (P ++ pick_frame p) /\ snd_mono s s').
  { intros Hst E'. cbv zeta in E'.
    assert (Npf : ~ past_fin s) by (intro Hq; eapply pf_not_ready; eauto).
    assert (Nrs : ~ is_reset s) by (unfold is_reset; destruct Hst as [Q|Q]; rewrite Q; intros [R|R]; discriminate).
    destruct (pick_up c (sn_buf s) pred credit) as [b' st e fr d|w f g|] eqn:Ep.
    - destruct (sb_pick _ _ _ _ _ _ _ _ _ Hok Hp Ep) as (Hok' & Hw & Hse & Hew & Hd).
      destruct (sn_shutw s && (e =? written (sn_buf s))) eqn:Eeos; injection E' as <- <-.
      + apply andb_true_iff in Eeos. destruct Eeos as [Esh Ee]. apply N.eqb_eq in Ee.
        destruct (SI_buf c s (to_data_sent (snd_set_st s SSending) b') P HS) as [A B]; sn_simpl; auto; try tauto.
        split; [|exact B]. apply SI_add; [exact A|]. intros f0 [<-|[]]. cbn [frame_ok pk_start pk_end pk_eos pk_data pick_frame].
        unfold wr, past_fin; sn_simpl. rewrite Hw. split; [exact Hd|]. split; [lia|]. split; [|lia].
        intros _. split; [lia|]. split; [auto|split; discriminate].
      + destruct (SI_buf c s (snd_set_buf (snd_set_st s SSending) b') P HS) as [A B]; sn_simpl; auto; try tauto; try discriminate.
        split; [|exact B]. apply SI_add; [exact A|]. intros f0 [<-|[]]. cbn [frame_ok pk_start pk_end pk_eos pk_data pick_frame].
        unfold wr; sn_simpl. rewrite Hw. split; [exact Hd|]. split; [lia|]. split; [discriminate|lia].
    - destruct (sn_shutw s && (written (sn_buf s) =? sent (sn_buf s))) eqn:Eeos.
      + apply andb_true_iff in Eeos. destruct Eeos as [Esh Ee]. apply N.eqb_eq in Ee.
        destruct (pred (sent (sn_buf s))); injection E' as <- <-.
        * destruct (SI_buf c s (to_data_sent (snd_set_st s SSending) (sn_buf s)) P HS) as [A B]; sn_simpl; auto; try tauto.
          split; [|exact B]. apply SI_add; [exact A|]. intros f0 [<-|[]]. cbn [frame_ok pk_start pk_end pk_eos pk_data pick_frame].
          unfold wr, past_fin; sn_simpl. rewrite N.sub_diag. split; [reflexivity|]. split; [lia|]. split; [|auto].
          intros _. split; [lia|]. split; [auto|split; discriminate].
        * apply None_case; sn_simpl; auto.
      + injection E' as <- <-. apply None_case; sn_simpl; auto.
    - injection E' as <- <-. apply None_case; sn_simpl; auto. }
  destruct (sn_st s) eqn:Est; try (injection E as <- <-; cbn [pick_frame]; rewrite app_nil_r; split; [exact HS|apply snd_mono_refl]).
  - apply Early; auto.
  - apply Early; auto.
  - (* DataSent *)
    assert (Hsc : sn_shutcalled s = true) by (apply H4; reflexivity).
    destruct (pick_up c (sn_buf s) pred credit) as [b' st e fr d|w f g|] eqn:Ep.
    + destruct (sb_pick _ _ _ _ _ _ _ _ _ Hok Hp Ep) as (Hok' & Hw & Hse & Hew & Hd). injection E as <- <-.
      destruct (SI_buf c s (snd_set_buf s b') P HS) as [A B]; sn_simpl; auto.
      split; [|exact B]. apply SI_add; [exact A|]. intros f0 [<-|[]]. cbn [frame_ok pk_start pk_end pk_eos pk_data pick_frame].
      unfold wr, past_fin; sn_simpl. rewrite Hw. split; [exact Hd|]. split; [lia|]. split; [|lia].
      intros Hq. apply N.eqb_eq in Hq. split; [lia|]. split; [exact Hsc|rewrite Est; split; discriminate].
    + destruct (sn_fin s); injection E as <- <-; try (cbn [pick_frame]; rewrite app_nil_r; split; [exact HS|apply snd_mono_refl]).
      destruct (SI_same c s (snd_set_fin s FinSent) P) as [A B]; sn_simpl; auto.
      split; [|exact B]. apply SI_add; [exact A|]. intros f0 [<-|[]]. cbn [frame_ok pk_start pk_end pk_eos pk_data pick_frame].
      unfold wr, past_fin; sn_simpl. rewrite N.sub_diag. split; [reflexivity|]. split; [lia|]. split; [|auto].
      intros _. split; [lia|]. split; [exact Hsc|rewrite Est; split; discriminate].
    + injection E as <- <-. cbn [pick_frame]. rewrite app_nil_r. split; [exact HS|apply snd_mono_refl].
Qed.

(* feedback: the range is the range of a frame of this flow *)
Lemma frame_range c s P off len fin d :
  SI c s P -> In (FrS off len fin d) P ->
  (sn_st s = SReady \/ sn_st s = SSending -> 0 < len) /\ (len = 0 -> fin = true).
Proof.
  intros (_ & HF & _) Hin. specialize (HF _ Hin). cbn [frame_ok] in HF. destruct HF as (_ & _ & F3 & F4).
  split; [|exact F4]. intros Hst. destruct (N.eq_dec len 0) as [Z|NZ]; [|lia].
  exfalso. destruct (F3 (F4 Z)) as (_ & _ & Hpf). eapply pf_not_ready; eauto.
Qed.

Lemma step_acked c s P off len fin d s' ok :
  SI c s P -> In (FrS off len fin d) P ->
  snd_on_acked s off len fin = (s', ok) -> SI c s' P /\ snd_mono s s'.
Proof.
  intros HS Hin E. pose proof HS as (Hok & HF & H3 & H4).
  destruct (frame_range _ _ _ _ _ _ _ HS Hin) as [Hpos Hfin].
  unfold snd_on_acked in E.
  assert (Buf : forall b, on_data_acked (sn_buf s) off (off + len) = Some b ->
                          sb_ok b /\ written b = written (sn_buf s)).
  { intros b Eb. apply (sb_ack (sn_buf s) off (off + len)); [exact Hok|exact Eb]. }
  destruct (sn_st s) eqn:Est; try (injection E as <- <-; split; [exact HS|apply snd_mono_refl]).
  - destruct (on_data_acked (sn_buf s) off (off + len)) as [b|] eqn:Eb; [|injection E as <- <-; split; [exact HS|apply snd_mono_refl]].
    destruct (Buf b eq_refl) as [Hb Hw].
    destruct (is_all_rcvd b && sn_flushw s); injection E as <- <-;
      apply SI_buf; sn_simpl; auto; try discriminate; unfold past_fin, is_reset; sn_simpl; rewrite ?Est; auto.
  - destruct (on_data_acked (sn_buf s) off (off + len)) as [b|] eqn:Eb; [|injection E as <- <-; split; [exact HS|apply snd_mono_refl]].
    destruct (Buf b eq_refl) as [Hb Hw].
    assert (Hsc : sn_shutcalled s = true) by (apply H4; reflexivity).
    destruct (is_all_rcvd b && match (if fin then FinRcvd else sn_fin s) with FinRcvd => true | _ => false end);
      injection E as <- <-; apply SI_buf; sn_simpl; auto; try discriminate; unfold past_fin, is_reset; sn_simpl; rewrite ?Est; auto;
      intros; try (split; discriminate); try tauto.
    all: destruct H as [H|H]; discriminate.
Qed.

Lemma step_lost c s P off len fin d s' ok :
  SI c s P -> In (FrS off len fin d) P ->
  snd_may_loss s off len fin = (s', ok) -> SI c s' P /\ snd_mono s s'.
Proof.
  intros HS Hin E. pose proof HS as (Hok & HF & H3 & H4).
  destruct (frame_range _ _ _ _ _ _ _ HS Hin) as [Hpos Hfin].
  unfold snd_may_loss in E.
  assert (Buf : forall b, may_loss_data (sn_buf s) off (off + len) = Some b ->
                          sb_ok b /\ written b = written (sn_buf s)).
  { intros b Eb. apply (sb_loss (sn_buf s) off (off + len)); [exact Hok|exact Eb]. }
  destruct (sn_st s) eqn:Est; try (injection E as <- <-; split; [exact HS|apply snd_mono_refl]).
  - destruct (may_loss_data (sn_buf s) off (off + len)) as [b|] eqn:Eb; [|injection E as <- <-; split; [exact HS|apply snd_mono_refl]].
    destruct (Buf b eq_refl) as [Hb Hw]. injection E as <- <-.
    apply SI_buf; sn_simpl; auto; try discriminate; unfold past_fin, is_reset; sn_simpl; rewrite ?Est; auto.
  - assert (Hsc : sn_shutcalled s = true) by (apply H4; reflexivity).
    destruct (may_loss_data (sn_buf s) off (off + len)) as [b|] eqn:Eb; injection E as <- <-.
    + destruct (Buf b eq_refl) as [Hb Hw].
      apply SI_buf; sn_simpl; auto; try discriminate; unfold past_fin, is_reset; sn_simpl; rewrite ?Est; auto.
    + apply SI_same; sn_simpl; auto.
Qed.

(* ------------------------------------------------------------------ *)
(* recver half *)
Ltac rc_simpl := cbn [rc_st rc_buf rc_largest rc_maxsd rc_readw rc_wakes rc_stopped rc_inset rc_got rc_eos with_read] in *.

Lemma RI_same c r r' W pf sc P :
  rc_st r' = rc_st r -> rc_buf r' = rc_buf r -> rc_got r' = rc_got r -> rc_eos r' = rc_eos r ->
  RI c r W pf sc P -> RI c r' W pf sc P.
Proof. unfold RI. intros -> -> -> ->. auto. Qed.

Lemma all_rcvd_eq b f : all_rcvd b f = true -> nread b + available b = f.
Proof. unfold all_rcvd. apply N.eqb_eq. Qed.

Ltac ri_split := unfold RI; rc_simpl; split; [|split; [|split; [|split; [|split]]]].

Lemma step_recv_data c r W (pf sc : Prop) P off d fin r' fresh :
  RI c r W pf sc P ->
  d = slice c off (lenN d) -> off + lenN d <= W -> (fin = true -> off + lenN d = W /\ pf /\ sc) ->
  rc_recv_data r off d fin = inl (r', fresh) -> RI c r' W pf sc P.
Proof.
  intros HR Hd Hle Hfin E. pose proof HR as (R1 & R2 & R3 & R4 & R5 & R6). unfold rc_recv_data in E.
  assert (Rcv : forall b' fr, recv (rc_buf r) off d = (b', fr) ->
                RB.Inv c b' /\ nread b' = nread (rc_buf r) /\ largest b' <= W).
  { intros b' fr Er. rewrite Hd in Er. destruct (RB.recv_spec _ _ _ _ _ _ R1 Er) as (S1 & S2 & _ & S4 & _).
    split; [exact S1|]. split; [exact S2|]. rewrite S4. destruct (lenN d =? 0); lia. }
  assert (Neos : rc_st r <> RDataRead -> rc_eos r = true -> False).
  { intros Hn H. apply Hn. apply R5. exact H. }
  destruct (rc_st r) eqn:Est.
  - (* Recv *)
    destruct fin.
    + destruct (Hfin eq_refl) as (F1 & F2 & F3).
      cbn [rc_wake] in E.
      destruct (rc_maxsd r <? off + lenN d); [discriminate|].
      destruct (off + lenN d <? largest (rc_buf r)); [discriminate|].
      destruct (recv (rc_buf r) off d) as [b' fr] eqn:Er. destruct (Rcv _ _ eq_refl) as (Q1 & Q2 & Q3).
      destruct (all_rcvd b' (off + lenN d)) eqn:Ea; injection E as <- <-; ri_split; auto;
        try (rewrite Q2; exact R3); try (intros [H|H]; discriminate);
        try (intro H; exfalso; apply Neos; [discriminate|exact H]).
      apply all_rcvd_eq in Ea. split; [lia|]. split; [exact F2|]. split; [exact F3|exact Ea].
    + destruct (rc_maxsd r <? off + lenN d); [discriminate|].
      destruct (recv (rc_buf r) off d) as [b' fr] eqn:Er. destruct (Rcv _ _ eq_refl) as (Q1 & Q2 & Q3).
      destruct (is_readable b'); cbn [rc_wake] in E; injection E as <- <-; ri_split; auto;
        try (rewrite Q2; exact R3); try (intros [H|H]; discriminate);
        try (intro H; exfalso; apply Neos; [discriminate|exact H]).
  - (* SizeKnown *)
    destruct R4 as (A1 & A2 & A3).
    destruct (final <? off + lenN d); [discriminate|].
    destruct (fin && negb (off + lenN d =? final)); [discriminate|].
    destruct (recv (rc_buf r) off d) as [b' fr] eqn:Er. destruct (Rcv _ _ eq_refl) as (Q1 & Q2 & Q3).
    destruct (is_readable b'); cbn [rc_wake] in E;
      (destruct (all_rcvd b' final) eqn:Ea; injection E as <- <-; ri_split; auto;
       try (rewrite Q2; exact R3); try (intros [H|H]; discriminate);
       try (intro H; exfalso; apply Neos; [discriminate|exact H]);
       try (apply all_rcvd_eq in Ea; split; [exact A1|]; split; [exact A2|]; split; [exact A3|exact Ea])).
  - injection E as <- <-. exact HR.
  - injection E as <- <-. exact HR.
  - injection E as <- <-. exact HR.
  - injection E as <- <-. exact HR.
Qed.

Lemma step_recv_reset c r W (pf sc : Prop) P final r' fresh :
  RI c r W pf sc P -> (exists err, In (FrR err final) P) ->
  rc_recv_reset r final = inl (r', fresh) -> RI c r' W pf sc P.
Proof.
  intros HR [err Hin] E. pose proof HR as (R1 & R2 & R3 & R4 & R5 & R6). unfold rc_recv_reset in E.
  assert (Neos : rc_st r <> RDataRead -> rc_eos r = true -> False).
  { intros Hn H. apply Hn. apply R5. exact H. }
  destruct (rc_st r) eqn:Est; try (injection E as <- <-; exact HR).
  - destruct (rc_maxsd r <? final); [discriminate|]. destruct (final <? rc_largest r); [discriminate|].
    cbn [rc_wake] in E. injection E as <- <-. ri_split; auto.
    + intro H. exfalso. apply Neos; [discriminate|exact H].
    + intros _. eauto.
  - destruct (negb (final =? final0)); [discriminate|].
    cbn [rc_wake] in E. injection E as <- <-. ri_split; auto.
    + intro H. exfalso. apply Neos; [discriminate|exact H].
    + intros _. eauto.
Qed.

Lemma readable_avail c b : RB.Inv c b -> is_readable b = true -> 0 < available b.
Proof.
  intros (I1 & _ & _) Hr. unfold is_readable, available in *. destruct (segs b) as [|s rest]; [discriminate|].
  cbn [RB.wf] in I1. destruct I1 as (_ & W2 & _ & W4). cbn [contig_end]. rewrite Hr.
  destruct (RB.contig_spec c rest _ W4) as (A1 & _). pose proof (RB.s_end_eq s). apply N.eqb_eq in Hr. lia.
Qed.

Lemma read_keeps_sum c b room b' out :
  RB.Inv c b -> try_read b room = (b', out) ->
  RB.Inv c b' /\ nread b' + available b' = nread b + available b /\
  out = slice c (nread b) (nread b' - nread b) /\ nread b <= nread b' /\ largest b' = largest b /\
  lenN out = N.min room (available b).
Proof.
  intros HI E. pose proof (RB.try_read_spec _ _ _ _ _ HI E) as HS. cbv zeta in HS.
  destruct HS as (S1 & S2 & S3 & S4 & S5).
  destruct (RB.available_spec _ _ HI) as (A1 & A2). destruct (RB.available_spec _ _ S1) as (B1 & B2).
  split; [exact S1|]. split; [|split; [|split; [lia|split; [exact S4|]]]].
  - destruct (N.lt_trichotomy (nread b' + available b') (nread b + available b)) as [H|[H|H]]; [|exact H|]; exfalso.
    + apply B2. apply S5. apply A1. lia.
    + apply A2. apply S5. apply B1. lia.
  - rewrite S3. f_equal. lia.
  - rewrite S3. apply lenN_slice.
Qed.

Lemma drained c b : RB.Inv c b -> largest b <= nread b -> segs b = [].
Proof.
  intros (I1 & I2 & I3) H. destruct (segs b) as [|s rest] eqn:Es; [reflexivity|exfalso].
  cbn [RB.wf] in I1. destruct I1 as (W1 & W2 & _). assert (Hin : In s (s :: rest)) by (now left).
  specialize (I3 s Hin). pose proof (RB.s_end_eq s). lia.
Qed.

Lemma step_read c r W (pf sc : Prop) P room r' z out :
  RI c r W pf sc P -> rc_poll_read r room = (r', z, out) -> RI c r' W pf sc P.
Proof.
  intros HR E. pose proof HR as (R1 & R2 & R3 & R4 & R5 & R6). unfold rc_poll_read in E.
  assert (Neos : rc_st r <> RDataRead -> rc_eos r = true -> False).
  { intros Hn H. apply Hn. apply R5. exact H. }
  assert (Got : forall b' o, try_read (rc_buf r) room = (b', o) ->
                RB.Inv c b' /\ largest b' <= W /\ rc_got r ++ o = slice c 0 (nread b')).
  { intros b' o Et. destruct (read_keeps_sum _ _ _ _ _ R1 Et) as (T1 & _ & T3 & T4 & T5 & _).
    split; [exact T1|]. split; [lia|]. rewrite R3, T3.
    replace (nread b') with (nread (rc_buf r) + (nread b' - nread (rc_buf r))) at 2 by lia.
    rewrite slice_app. reflexivity. }
  destruct (rc_st r) eqn:Est.
  - destruct (is_readable (rc_buf r)) eqn:Erd.
    + destruct (try_read (rc_buf r) room) as [b' o] eqn:Et. injection E as <- <- <-.
      destruct (Got _ _ eq_refl) as (G1 & G2 & G3).
      destruct (read_keeps_sum _ _ _ _ _ R1 Et) as (_ & _ & _ & _ & _ & T6).
      pose proof (readable_avail _ _ R1 Erd) as Hav.
      ri_split; auto; try (intros [H|H]; discriminate).
      intro H. apply orb_true_iff in H. destruct H as [H|H]; [exfalso; apply Neos; [discriminate|exact H]|].
      apply andb_true_iff in H. destruct H as [H1 H2]. apply N.eqb_eq in H1. apply negb_true_iff in H2. apply N.eqb_neq in H2. lia.
    + injection E as <- <- <-. ri_split; auto; try (intros [H|H]; discriminate);
      try (intro H; exfalso; apply Neos; [discriminate|exact H]).
  - destruct (is_readable (rc_buf r)) eqn:Erd.
    + destruct (try_read (rc_buf r) room) as [b' o] eqn:Et. injection E as <- <- <-.
      destruct (Got _ _ eq_refl) as (G1 & G2 & G3).
      destruct (read_keeps_sum _ _ _ _ _ R1 Et) as (_ & _ & _ & _ & _ & T6).
      pose proof (readable_avail _ _ R1 Erd) as Hav.
      ri_split; auto; try (intros [H|H]; discriminate).
      intro H. apply orb_true_iff in H. destruct H as [H|H]; [exfalso; apply Neos; [discriminate|exact H]|].
      apply andb_true_iff in H. destruct H as [H1 H2]. apply N.eqb_eq in H1. apply negb_true_iff in H2. apply N.eqb_neq in H2. lia.
    + injection E as <- <- <-. ri_split; auto; try (intros [H|H]; discriminate);
      try (intro H; exfalso; apply Neos; [discriminate|exact H]).
  - (* DataRcvd *)
    destruct R4 as (A1 & A2 & A3 & A4).
    destruct (try_read (rc_buf r) room) as [b' o] eqn:Et. injection E as <- <- <-.
    destruct (Got _ _ eq_refl) as (G1 & G2 & G3).
    destruct (read_keeps_sum _ _ _ _ _ R1 Et) as (_ & T2 & _ & T4 & _ & T6).
    destruct (segs b') as [|s0 rest0] eqn:Es; ri_split; auto; try (intros [H|H]; discriminate).
    + assert (available b' = 0) by (unfold available; rewrite Es; cbn [contig_end]; lia).
      split; [lia|]. split; assumption.
    + split; [exact A1|]. split; [exact A2|]. split; [exact A3|lia].
    + intro H. apply orb_true_iff in H. destruct H as [H|H]; [exfalso; apply Neos; [discriminate|exact H]|].
      apply andb_true_iff in H. destruct H as [H1 H2]. apply N.eqb_eq in H1. apply negb_true_iff in H2. apply N.eqb_neq in H2.
      exfalso. assert (Hav : available (rc_buf r) = 0) by lia.
      assert (Hd : segs b' = []).
      { apply (drained c); [exact G1|]. lia. }
      rewrite Es in Hd. discriminate.
  - injection E as <- <- <-. destruct R4 as (A1 & A2 & A3). ri_split; auto; try (intros [H|H]; discriminate).
    rewrite app_nil_r. exact R3.
  - injection E as <- <- <-. ri_split; auto; try (intro H; exfalso; apply Neos; [discriminate|exact H]).
  - injection E as <- <- <-. exact HR.
Qed.

Lemma step_stop c r W (pf sc : Prop) P r' b : RI c r W pf sc P -> rc_stop r = (r', b) -> RI c r' W pf sc P.
Proof.
  intros HR E. unfold rc_stop in E.
  destruct (rc_st r) eqn:Est; try (injection E as <- <-; exact HR);
    (destruct (rc_stopped r); injection E as <- <-; [exact HR|eapply RI_same; [| | | |exact HR]; rc_simpl; auto]).
Qed.

(* ------------------------------------------------------------------ *)
(* one flow against the adversarial channel *)

(* the channel only hands back what the flow itself put on the wire *)
Definition justified (P : list fframe) (o : fop) : Prop :=
  match o with
  | FDeliverS off d fin => exists len, In (FrS off len fin d) P
  | FDeliverR final => exists err, In (FrR err final) P
  | FAck off len fin | FLose off len fin => exists d, In (FrS off len fin d) P
  | FTry pred _ => pred_pos pred
  | _ => True
  end.

Lemma FI_rcv c fl P r' fs :
  FI c fl P -> (forall f, In f fs -> frame_ok c (fl_snd fl) f) ->
  RI c r' (wr (fl_snd fl)) (past_fin (fl_snd fl)) (sn_shutcalled (fl_snd fl) = true) P ->
  FI c (mkflow (fl_snd fl) r') (P ++ fs).
Proof.
  intros [HS HR] Hf HR'. split; cbn [fl_snd fl_rcv].
  - apply SI_add; assumption.
  - eapply RI_mono; [exact HR'|lia|auto|auto|apply incl_appl, incl_refl].
Qed.

Lemma flow_step_inv c fl P o fl' new out :
  FI c fl P -> justified P o -> flow_step c fl o = (fl', new, out) -> FI c fl' (P ++ new).
Proof.
  intros HFI Hj E. pose proof HFI as [HS HR]. unfold flow_step in E.
  destruct o as [n| | |err|room|err|pred credit|off d fin|final|err|off len fin| |off len fin]; cbn [justified] in Hj.
  - destruct (snd_poll_write (fl_snd fl) n) as [s' z] eqn:Es. injection E as <- <- <-.
    destruct (step_write _ _ _ _ _ _ HS Es) as [A B]. rewrite <- (app_nil_r P) in A. exact (FI_snd _ _ _ _ _ HFI A B).
  - destruct (snd_poll_flush (fl_snd fl)) as [s' z] eqn:Es. injection E as <- <- <-.
    destruct (step_flush _ _ _ _ _ HS Es) as [A B]. rewrite <- (app_nil_r P) in A. exact (FI_snd _ _ _ _ _ HFI A B).
  - destruct (snd_poll_shutdown (fl_snd fl)) as [s' z] eqn:Es. injection E as <- <- <-.
    destruct (step_shutdown _ _ _ _ _ HS Es) as [A B]. rewrite <- (app_nil_r P) in A. exact (FI_snd _ _ _ _ _ HFI A B).
  - destruct (snd_cancel (fl_snd fl)) as [s' f] eqn:Es. injection E as <- <- <-.
    destruct (step_cancel _ _ _ _ _ err HS Es) as [A B]. exact (FI_snd _ _ _ _ _ HFI A B).
  - destruct (rc_poll_read (fl_rcv fl) room) as [[r' z] o] eqn:Er. injection E as <- <- <-.
    apply FI_rcv; [exact HFI|intros f []|]. eapply step_read; eauto.
  - destruct (rc_stop (fl_rcv fl)) as [r' b] eqn:Er. injection E as <- <- <-.
    apply FI_rcv; [exact HFI| |eapply step_stop; eauto].
    intros f Hin. destruct b; [destruct Hin as [<-|[]]; exact I|destruct Hin].
  - destruct (snd_try_load c (fl_snd fl) pred credit) as [s' p] eqn:Es. injection E as <- <- <-.
    destruct (step_try _ _ _ _ _ _ _ HS Hj Es) as [A B]. exact (FI_snd _ _ _ _ _ HFI A B).
  - destruct Hj as [len Hin]. destruct HS as (_ & HF & _). specialize (HF _ Hin). cbn [frame_ok] in HF.
    destruct HF as (F1 & F2 & F3 & _).
    assert (Hl : lenN d = len) by (rewrite F1; apply lenN_slice).
    destruct (rc_inset (fl_rcv fl)).
    + destruct (rc_recv_data (fl_rcv fl) off d fin) as [[r' fresh]|e] eqn:Er; injection E as <- <- <-; rewrite app_nil_r.
      * destruct HFI as [HS' _]. split; [exact HS'|]. cbn [fl_snd fl_rcv].
        eapply step_recv_data; [exact HR|rewrite Hl; exact F1|rewrite Hl; exact F2| |exact Er].
        rewrite Hl. intro Hf. destruct (F3 Hf) as (G1 & G2 & G3). auto.
      * exact HFI.
    + injection E as <- <- <-. rewrite app_nil_r. exact HFI.
  - destruct (rc_inset (fl_rcv fl)); [|injection E as <- <- <-; rewrite app_nil_r; exact HFI].
    set (r0 := mkrcv _ _ _ _ _ _ _ false _ _) in E.
    assert (HR0 : RI c r0 (wr (fl_snd fl)) (past_fin (fl_snd fl)) (sn_shutcalled (fl_snd fl) = true) P)
      by (eapply RI_same; [| | | |exact HR]; reflexivity).
    destruct (rc_recv_reset r0 final) as [[r' fresh]|e] eqn:Er; injection E as <- <- <-; rewrite app_nil_r.
    + split; [exact HS|]. cbn [fl_snd fl_rcv]. eapply step_recv_reset; eauto.
    + split; [exact HS|exact HR0].
  - destruct (sn_inset (fl_snd fl)); [|injection E as <- <- <-; rewrite app_nil_r; exact HFI].
    destruct (snd_be_stopped (fl_snd fl)) as [s' f] eqn:Es. injection E as <- <- <-.
    destruct (step_be_stopped _ _ _ _ _ err HS Es) as [A B]. exact (FI_snd _ _ _ _ _ HFI A B).
  - destruct Hj as [d Hin].
    destruct (sn_inset (fl_snd fl)); [|injection E as <- <- <-; rewrite app_nil_r; exact HFI].
    destruct (snd_on_acked (fl_snd fl) off len fin) as [s' ok] eqn:Es. injection E as <- <- <-.
    destruct (step_acked _ _ _ _ _ _ _ _ _ HS Hin Es) as [A B]. rewrite <- (app_nil_r P) in A. exact (FI_snd _ _ _ _ _ HFI A B).
  - destruct (sn_inset (fl_snd fl)); [|injection E as <- <- <-; rewrite app_nil_r; exact HFI].
    destruct (snd_on_reset_acked (fl_snd fl)) as [s' ok] eqn:Es. injection E as <- <- <-.
    destruct (step_reset_acked _ _ _ _ _ HS Es) as [A B]. rewrite <- (app_nil_r P) in A. exact (FI_snd _ _ _ _ _ HFI A B).
  - destruct Hj as [d Hin].
    destruct (sn_inset (fl_snd fl)); [|injection E as <- <- <-; rewrite app_nil_r; exact HFI].
    destruct (snd_may_loss (fl_snd fl) off len fin) as [s' ok] eqn:Es. injection E as <- <- <-.
    destruct (step_lost _ _ _ _ _ _ _ _ _ HS Hin Es) as [A B]. rewrite <- (app_nil_r P) in A. exact (FI_snd _ _ _ _ _ HFI A B).
Qed.

Lemma FI_init c w : FI c (new_flow w) [].
Proof.
  split; cbn [new_flow fl_snd fl_rcv].
  - split; [apply sb_ok_init|]. split; [intros f []|]. split; cbn; discriminate.
  - unfold RI, new_recver; rc_simpl. split; [apply RB.Inv_empty|]. split; [cbn; lia|]. split; [reflexivity|].
    split; [exact I|]. split; [discriminate|intros [H|H]; discriminate].
Qed.

(* every state one flow can reach: any interleaving of application calls, emissions with any
   capacity / tokens / credit, deliveries, acknowledgements and loss reports of any frame the flow
   ever emitted, in any order, any number of times *)
Inductive flow_reach (c : N -> Z) : flow -> list fframe -> Prop :=
| fr_init w : flow_reach c (new_flow w) []
| fr_step fl P o fl' new out :
    flow_reach c fl P -> justified P o ->
    flow_step c fl o = (fl', new, out) -> flow_reach c fl' (P ++ new).

Lemma reach_FI c fl P : flow_reach c fl P -> FI c fl P.
Proof. induction 1; [apply FI_init|eapply flow_step_inv; eauto]. Qed.

(* ------------------------------------------------------------------ *)
(* statements used by Properties/C01.v *)

Definition written_bytes (c : N -> Z) (fl : flow) : list Z := slice c 0 (wr (fl_snd fl)).
Definition is_prefix (a b : list Z) : Prop := exists t, b = a ++ t.

Lemma p_c01_safety : forall c fl P, flow_reach c fl P ->
  is_prefix (rc_got (fl_rcv fl)) (written_bytes c fl) /\
  (rc_eos (fl_rcv fl) = true ->
   rc_got (fl_rcv fl) = written_bytes c fl /\ sn_shutcalled (fl_snd fl) = true).
Proof.
  intros c fl P H. destruct (reach_FI _ _ _ H) as [HS (R1 & R2 & R3 & R4 & R5 & R6)].
  destruct R1 as (_ & I2 & _). unfold written_bytes. split.
  - exists (slice c (nread (rc_buf (fl_rcv fl))) (wr (fl_snd fl) - nread (rc_buf (fl_rcv fl)))).
    rewrite R3. replace (wr (fl_snd fl)) with (nread (rc_buf (fl_rcv fl)) + (wr (fl_snd fl) - nread (rc_buf (fl_rcv fl)))) at 1 by lia.
    apply slice_app.
  - intro He. rewrite (R5 He) in R4. destruct R4 as (A1 & _ & A3). rewrite R3, A1. auto.
Qed.

(* (i) what is on the wire: every STREAM frame names exactly the written slice it carries; FIN only at
   the written length, only after shutdown, and then nothing more is ever written *)
Lemma p_c01_frames : forall c fl P off len fin d, flow_reach c fl P -> In (FrS off len fin d) P ->
  d = slice c off len /\ off + len <= wr (fl_snd fl) /\
  (fin = true -> off + len = wr (fl_snd fl) /\ sn_shutcalled (fl_snd fl) = true /\ past_fin (fl_snd fl)).
Proof.
  intros c fl P off len fin d H Hin. destruct (reach_FI _ _ _ H) as [(_ & HF & _) _].
  specialize (HF _ Hin). cbn [frame_ok] in HF. tauto.
Qed.

(* (ii) the receive buffer is a C08 buffer over the same content, below the written length *)
Lemma p_c01_rcvbuf : forall c fl P, flow_reach c fl P ->
  RB.Inv c (rc_buf (fl_rcv fl)) /\ largest (rc_buf (fl_rcv fl)) <= wr (fl_snd fl) /\
  rc_got (fl_rcv fl) = slice c 0 (nread (rc_buf (fl_rcv fl))).
Proof. intros c fl P H. destruct (reach_FI _ _ _ H) as [_ (R1 & R2 & R3 & _)]. auto. Qed.

(* resets: the reader gets the reset error or a prefix, a reset is never invented, its final size
   never exceeds what was written *)
Lemma p_c01_reset_safe : forall c fl P, flow_reach c fl P ->
  is_prefix (rc_got (fl_rcv fl)) (written_bytes c fl) /\
  ((rc_st (fl_rcv fl) = RResetRcvd \/ rc_st (fl_rcv fl) = RResetRead) -> exists err final, In (FrR err final) P) /\
  (forall err final, In (FrR err final) P -> final <= wr (fl_snd fl) /\ is_reset (fl_snd fl)).
Proof.
  intros c fl P H. split; [exact (proj1 (p_c01_safety _ _ _ H))|].
  destruct (reach_FI _ _ _ H) as [(_ & HF & _) (_ & _ & _ & _ & _ & R6)]. split; [exact R6|].
  intros err final Hin. exact (HF _ Hin).
Qed.
