(* Model of qbase/src/frame/ack.rs: the AckFrame value (without ECN counts), its
   `encoding_size`, and `AckFrame::iter` with the u64 subtractions written as checked
   subtractions (an underflow is a panic in the debug profile: outcome [None]).
   Definitions only. *)
From Coq Require Import List ZArith Bool.
From GQ Require Export Lib.VarintSize.
Import ListNotations.
Local Open Scope Z_scope.

Record ackframe := mkack { a_largest : Z; a_delay : Z; a_first : Z; a_ranges : list (Z * Z) }.

Fixpoint ranges_size (rs : list (Z * Z)) : Z :=
  match rs with
  | [] => 0
  | (g, a) :: r => varint_size g + varint_size a + ranges_size r
  end.

(* EncodeSize::encoding_size for AckFrame with ecn = None *)
Definition ack_encoding_size (f : ackframe) : Z :=
  1 + varint_size (a_largest f) + varint_size (a_delay f)
    + varint_size (Z.of_nat (length (a_ranges f)))
    + varint_size (a_first f) + ranges_size (a_ranges f).

(* the `scan`: each (gap, range) yields  right = smallest - gap - 2,  left = right - range *)
Fixpoint iter_tail (smallest : Z) (rs : list (Z * Z)) : option (list (Z * Z)) :=
  match rs with
  | [] => Some []
  | (g, a) :: r =>
      if smallest <? g then None
      else if smallest - g <? 2 then None
      else
        let right := smallest - g - 2 in
        if right <? a then None
        else
          let left := right - a in
          match iter_tail left r with
          | Some t => Some ((left, right) :: t)
          | None => None
          end
  end.

(* AckFrame::iter: inclusive ranges (left, right), largest first; None = arithmetic underflow *)
Definition ack_iter (f : ackframe) : option (list (Z * Z)) :=
  if a_largest f <? a_first f then None
  else
    let left := a_largest f - a_first f in
    match iter_tail left (a_ranges f) with
    | Some t => Some ((left, a_largest f) :: t)
    | None => None
    end.

Definition in_range (x : Z) (r : Z * Z) : bool := (fst r <=? x) && (x <=? snd r).
Definition in_ranges (x : Z) (rs : list (Z * Z)) : bool := existsb (in_range x) rs.
