(* Models of the hand-written waiter / notifier protocols of gm-quic (property C16).
   Definitions only; the proofs are in Proofs/Wakers.v, the property theorems in
   Properties/C16.v.

   Every protocol is transcribed from the Rust AS IT IS: which field is written under which
   lock, whether the Waker is stored before or after the check, whether a second registration
   overwrites the first, what `take()`s it.  One-object protocols are `proto` instances of
   Lib/Interleave.v (one label = one lock-protected method); the SendWaker-based composite
   protocols (a condition guarded by one lock or atomic, the Waker guarded by the SendWaker's
   own lock) are bespoke `sys` instances with explicit program counters.

   Waiter ids are natural numbers.  Protocols whose object has ONE Waker slot are used by one
   task in the stack (a second task would overwrite the slot, or hit the `unreachable!` /
   `panic!` / `assert!` that guards the slot); there `poll` is enabled for waiter 0 only, and
   the harness applies the same rule.  Protocols that keep a list take any waiter id.

   Result codes of a poll: 0 = Pending; 1 = Ready; 2 = Ready(closed / None / error);
   3 = Ready(Ok(None)); 100+v = Ready(value v).  -9 = label not enabled (skipped). *)
From Coq Require Import List NArith ZArith Bool Arith.
From GQ Require Export Lib.Interleave.
From GQ Require Import Generated.C16Variant.
Import ListNotations.

Definition single (w : wid) : bool := Nat.eqb w 0.

(* POLL / DROPW lines must name one of the three waiters of the harness *)
Definition wok (t : N) (args : list Z) : bool :=
  match t, args with
  | 0%N, w :: _ | 3%N, w :: _ => (0 <=? w)%Z && (w <? 3)%Z
  | _, _ => true
  end.
Definition decw {L : Type} (dec : N -> list Z -> option L) (t : N) (args : list Z) : option L :=
  if wok t args then dec t args else None.


(* ==================================================================================== *)
(* 1. SendWaker  (qbase/src/net/tx.rs)                                                   *)
(*    struct SendWaker { waker: Option<Waker>, state: u16 }   -- behind ArcSendWaker's Mutex
      bit = 1: that signal has been raised since the last wait; 0: awaited.             *)

Definition sigs := nat -> bool.                 (* bit i of a u16, i < 16 *)
Definition nbits : list nat := seq 0 16.
Definition sig_of_mask (m : Z) : sigs := fun i => Z.testbit m (Z.of_nat i).
Definition sig_none : sigs := fun _ => false.
Definition sig_not (a : sigs) : sigs := fun i => negb (a i).
Definition sig_or (a b : sigs) : sigs := fun i => a i || b i.
(* a & b == 0 *)
Definition sig_disj (a b : sigs) : bool := forallb (fun i => negb (a i && b i)) nbits.
(* a | b == a *)
Definition sig_sub (b a : sigs) : bool := forallb (fun i => implb (b i) (a i)) nbits.

Record swobj := mkSw { sw_waker : option wid; sw_state : sigs }.

(* poll_wait_for(cx, signals) *)
Definition sw_poll (o : swobj) (w : wid) (a : sigs) : swobj * pres :=
  if sig_disj (sw_state o) a then
    (* self.state = !signals; store the waker unless the old one will_wake the same task *)
    (mkSw (Some w) (sig_not a), Pending)
  else
    (mkSw (sw_waker o) sig_none, Ready 1).

(* wake_by(signals): wake_by_ref (the waker stays), then state |= signals *)
Definition sw_wake (o : swobj) (b : sigs) : swobj * list wid :=
  (mkSw (sw_waker o) (sig_or (sw_state o) b),
   if sig_sub b (sw_state o) then []
   else match sw_waker o with Some w => [w] | None => [] end).

Inductive sw_op := SwWake (b : sigs).

Definition sendwaker_proto : proto :=
  {| Obj := swobj; PArg := sigs; Op := sw_op;
     obj0 := mkSw None sig_none; arg0 := sig_none;
     poll := fun o w a => if single w then let '(o', r) := sw_poll o w a in Some (o', [], r) else None;
     oper := fun o op => match op with SwWake b => let '(o', wk) := sw_wake o b in Some (o', wk, 0%Z) end |}.

(* the awaited condition of the bare SendWaker: one of the awaited signals has been raised *)
Definition sw_cond (o : swobj) (a : sigs) : Prop := sig_disj (sw_state o) a = false.

Definition sw_dec (t : N) (args : list Z) : option (lbl sendwaker_proto) :=
  match t, args with
  | 0%N, [w; m] => Some (LPoll (Z.to_nat w) (sig_of_mask m : PArg sendwaker_proto))
  | 1%N, [m] => Some (LOp (SwWake (sig_of_mask m) : Op sendwaker_proto))
  | 3%N, [w] => Some (LDrop (Z.to_nat w))
  | _, _ => None
  end.

(* ==================================================================================== *)
(* 2. AsyncDeque  (qbase/src/util/async_deque.rs; RecvBuffer in qconnection/src/path/util.rs
      is a thin wrapper: write = push_back, dismiss = close, poll_next = poll_pop)
      struct AsyncDeque<T> { queue: Option<VecDeque<T>>, waker: Option<Waker> }         *)

Record adobj := mkAd { ad_q : option (list Z); ad_w : option wid }.

Definition take_waker (o : option wid) : list wid := match o with Some w => [w] | None => [] end.

(* poll_pop *)
Definition ad_poll (o : adobj) (w : wid) : option (adobj * list wid * pres) :=
  match ad_q o with
  | None => Some (o, [], Ready 2)
  | Some (v :: rest) => Some (mkAd (Some rest) (ad_w o), [], Ready (100 + v))
  | Some [] =>
      match ad_w o with
      | Some w' => if Nat.eqb w' w then Some (mkAd (Some []) (Some w), [], Pending)
                   else None      (* panic!("Multiple tasks are attempting to wait ...") -- this is
                                     why the deque is a single-consumer object *)
      | None => Some (mkAd (Some []) (Some w), [], Pending)
      end
  end.

Inductive ad_op := AdPushBack (v : Z) | AdPushFront (v : Z) | AdExtend (vs : list Z) | AdClose.

Definition ad_oper (o : adobj) (op : ad_op) : adobj * list wid :=
  match op with
  | AdPushBack v =>
      match ad_q o with
      | Some q => (mkAd (Some (q ++ [v])) None, take_waker (ad_w o))
      | None => (o, [])
      end
  | AdPushFront v =>
      match ad_q o with
      | Some q => (mkAd (Some (v :: q)) None, take_waker (ad_w o))
      | None => (o, [])
      end
  | AdExtend vs =>        (* wakes even when the iterator is empty *)
      match ad_q o with
      | Some q => (mkAd (Some (q ++ vs)) None, take_waker (ad_w o))
      | None => (o, [])
      end
  | AdClose => (mkAd None None, take_waker (ad_w o))
  end.

Definition asyncdeque_proto : proto :=
  {| Obj := adobj; PArg := unit; Op := ad_op;
     obj0 := mkAd (Some []) None; arg0 := tt;
     poll := fun o w _ => if single w then ad_poll o w else None;
     oper := fun o op => let '(o', wk) := ad_oper o op in Some (o', wk, 0%Z) |}.

Definition ad_cond (o : adobj) (_ : unit) : Prop :=
  match ad_q o with None => True | Some [] => False | Some (_ :: _) => True end.

Definition ad_dec (t : N) (args : list Z) : option (lbl asyncdeque_proto) :=
  match t, args with
  | 0%N, [w] => Some (LPoll (Z.to_nat w) (tt : PArg asyncdeque_proto))
  | 1%N, [0%Z; v] => Some (LOp (AdPushBack v : Op asyncdeque_proto))
  | 1%N, [1%Z; v] => Some (LOp (AdPushFront v : Op asyncdeque_proto))
  | 1%N, 2%Z :: vs => Some (LOp (AdExtend vs : Op asyncdeque_proto))
  | 2%N, [] => Some (LOp (AdClose : Op asyncdeque_proto))
  | 3%N, [w] => Some (LDrop (Z.to_nat w))
  | _, _ => None
  end.

(* RecvBuffer exposes write (= push_back), dismiss (= close) and poll_next (= poll_pop) only *)
Definition rb_dec (t : N) (args : list Z) : option (lbl asyncdeque_proto) :=
  match t, args with
  | 1%N, [0%Z; _] | 0%N, [_] | 2%N, [] | 3%N, [_] => ad_dec t args
  | _, _ => None
  end.

(* ==================================================================================== *)
(* 3. Receiving / ArcReceiving  (qbase/src/lib.rs, qbase/src/frame/io.rs)
      enum Receiving<F> { Pending, Waiting(Waker), Rcvd(F), Read, Reset }  behind a Mutex.
      `poll` and `recv_frame` start with std::mem::take(self), which leaves `Pending`.   *)

Inductive rcobj := RcPending | RcWaiting (w : wid) | RcRcvd (v : Z) | RcRead | RcReset.

(* Future::poll for Receiving<F> -- the code as it is: `_cx` is not used at all *)
Definition receiving_poll (o : rcobj) (w : wid) : rcobj * pres :=
  match o with
  | RcPending => (RcPending, Pending)
  | RcWaiting w' => (RcWaiting w', Pending)
  | RcRcvd v => (RcRead, Ready (100 + v))
  | RcRead => (RcRead, Ready 3)
  | RcReset => (RcReset, Ready 2)
  end.

Inductive rc_op := RcRecv (v : Z) | RcResetOp.

(* recv_frame / reset -- as it is: the `_ => ()` arm leaves the state taken, i.e. Pending *)
Definition receiving_oper (o : rcobj) (op : rc_op) : rcobj * list wid :=
  match op with
  | RcRecv v =>
      match o with
      | RcPending => (RcRcvd v, [])
      | RcWaiting w => (RcRcvd v, [w])
      | _ => (RcPending, [])
      end
  | RcResetOp =>
      match o with
      | RcWaiting w => (RcReset, [w])
      | _ => (RcReset, [])
      end
  end.

Definition receiving_proto : proto :=
  {| Obj := rcobj; PArg := unit; Op := rc_op;
     obj0 := RcPending; arg0 := tt;
     poll := fun o w _ => if single w then let '(o', r) := receiving_poll o w in Some (o', [], r) else None;
     oper := fun o op => let '(o', wk) := receiving_oper o op in Some (o', wk, 0%Z) |}.

(* the repaired code (fix commit "fix: Receiving registers the waker ..."):
   poll stores the Waker in Pending/Waiting; recv_frame puts back what it took in the
   states that already hold a result *)
Definition receiving_fixed_poll (o : rcobj) (w : wid) : rcobj * pres :=
  match o with
  | RcPending | RcWaiting _ => (RcWaiting w, Pending)
  | RcRcvd v => (RcRead, Ready (100 + v))
  | RcRead => (RcRead, Ready 3)
  | RcReset => (RcReset, Ready 2)
  end.

Definition receiving_fixed_oper (o : rcobj) (op : rc_op) : rcobj * list wid :=
  match op with
  | RcRecv v =>
      match o with
      | RcPending => (RcRcvd v, [])
      | RcWaiting w => (RcRcvd v, [w])
      | other => (other, [])
      end
  | RcResetOp =>
      match o with
      | RcWaiting w => (RcReset, [w])
      | _ => (RcReset, [])
      end
  end.

Definition receiving_fixed_proto : proto :=
  {| Obj := rcobj; PArg := unit; Op := rc_op;
     obj0 := RcPending; arg0 := tt;
     poll := fun o w _ => if single w then let '(o', r) := receiving_fixed_poll o w in Some (o', [], r) else None;
     oper := fun o op => let '(o', wk) := receiving_fixed_oper o op in Some (o', wk, 0%Z) |}.

(* something to observe: a frame, the fact that it was read already, or the reset *)
Definition rc_cond (o : rcobj) (_ : unit) : Prop :=
  match o with RcRcvd _ | RcRead | RcReset => True | _ => False end.

Definition rc_dec (P : proto) (mkop : rc_op -> Op P) (t : N) (args : list Z) : option (lbl P) :=
  match t, args with
  | 0%N, [w] => Some (LPoll (Z.to_nat w) (arg0 P))
  | 1%N, [v] => Some (LOp (mkop (RcRecv v)))
  | 2%N, [] => Some (LOp (mkop RcResetOp))
  | 3%N, [w] => Some (LDrop (Z.to_nat w))
  | _, _ => None
  end.

(* ==================================================================================== *)
(* 4. Wakers / WakerVec  (qbase/src/util/wakers.rs) -- a list of Wakers behind a Mutex.
      `register` pushes unless an equal Waker is already there; `wake_all` swaps the list out
      and wakes every element; dropping the vector wakes every element.  The object holds no
      condition: as in `combine_with`, the waiter registers FIRST and then checks its own
      condition (a flag owned by the harness); the notifier sets the flag and calls wake_all. *)

Record wvobj := mkWv { wv_regs : list wid; wv_flag : bool; wv_closed : bool }.

Definition wv_poll (o : wvobj) (w : wid) : wvobj * pres :=
  if wv_closed o then (o, Ready 2)
  else
    let regs := if existsb (Nat.eqb w) (wv_regs o) then wv_regs o else wv_regs o ++ [w] in
    (mkWv regs (wv_flag o) false, if wv_flag o then Ready 1 else Pending).

Inductive wv_op := WvNotify | WvSpurious | WvClose.

Definition wv_oper (o : wvobj) (op : wv_op) : wvobj * list wid :=
  if wv_closed o then (o, [])
  else match op with
       | WvNotify => (mkWv [] true false, wv_regs o)
       | WvSpurious => (mkWv [] (wv_flag o) false, wv_regs o)
       | WvClose => (mkWv [] (wv_flag o) true, wv_regs o)       (* Drop for WakerVec *)
       end.

Definition wakervec_proto : proto :=
  {| Obj := wvobj; PArg := unit; Op := wv_op;
     obj0 := mkWv [] false false; arg0 := tt;
     poll := fun o w _ => let '(o', r) := wv_poll o w in Some (o', [], r);
     oper := fun o op => let '(o', wk) := wv_oper o op in Some (o', wk, 0%Z) |}.

Definition wv_cond (o : wvobj) (_ : unit) : Prop := wv_flag o = true \/ wv_closed o = true.

Definition wv_dec (t : N) (args : list Z) : option (lbl wakervec_proto) :=
  match t, args with
  | 0%N, [w] => Some (@LPoll wakervec_proto (Z.to_nat w) tt)
  | 1%N, [0%Z] => Some (@LOp wakervec_proto WvNotify)
  | 1%N, [1%Z] => Some (@LOp wakervec_proto WvSpurious)
  | 2%N, [] => Some (@LOp wakervec_proto WvClose)
  | 3%N, [w] => Some (LDrop (Z.to_nat w))
  | _, _ => None
  end.

(* ==================================================================================== *)
(* 5. Parameters / ArcParameters  (qbase/src/param.rs)
      Mutex<Result<Parameters, Error>>; Parameters { state, ..., wakers: Vec<Waker> }.
      poll_ready pushes the Waker (no de-duplication) unless both sides are ready;
      recv_remote_params / initial_scid_from_peer_need_equal set the state and wake_all when
      the connection ids authenticate; on_conn_error replaces the value by Err, and the Drop of
      Parameters wakes all.  remote_ready() = lock_guard()? then poll_ready.             *)

Record pmobj := mkPm { pm_got : bool; pm_bad : bool; pm_scid : bool; pm_ready : bool; pm_err : bool;
                       pm_wakers : list wid }.

Definition pm_poll (o : pmobj) (w : wid) : pmobj * pres :=
  if pm_err o then (o, Ready 2)
  else if pm_ready o then (o, Ready 1)
  else (mkPm (pm_got o) (pm_bad o) (pm_scid o) false false (pm_wakers o ++ [w]), Pending).

Inductive pm_op := PmRecv (good : bool) | PmScid | PmConnError.

(* result code: 0 = Ok(()), 1 = Err(TransportParameter) from authenticate_cids *)
Definition pm_oper (o : pmobj) (op : pm_op) : option (pmobj * list wid * Z) :=
  match op with
  | PmRecv good =>
      if pm_err o || pm_got o then None        (* lock_guard() fails / assert!(is_empty()) *)
      else if pm_scid o then
        if good then Some (mkPm true false true true false [], pm_wakers o, 0%Z)
        else Some (mkPm true true true false false (pm_wakers o), [], 1%Z)
      else Some (mkPm true (negb good) false false false (pm_wakers o), [], 0%Z)
  | PmScid =>
      if pm_err o || pm_scid o then None       (* assert!(initial_scid.replace(cid).is_none()) *)
      else if pm_got o then
        if pm_bad o then Some (mkPm true true true false false (pm_wakers o), [], 1%Z)
        else Some (mkPm true false true true false [], pm_wakers o, 0%Z)
      else Some (mkPm false (pm_bad o) true false false (pm_wakers o), [], 0%Z)
  | PmConnError =>
      if pm_err o then Some (o, [], 0%Z)
      else Some (mkPm (pm_got o) (pm_bad o) (pm_scid o) (pm_ready o) true [], pm_wakers o, 0%Z)
  end.

Definition params_proto : proto :=
  {| Obj := pmobj; PArg := unit; Op := pm_op;
     obj0 := mkPm false false false false false []; arg0 := tt;
     poll := fun o w _ => let '(o', r) := pm_poll o w in Some (o', [], r);
     oper := pm_oper |}.

Definition pm_cond (o : pmobj) (_ : unit) : Prop := pm_ready o = true \/ pm_err o = true.

Definition pm_dec (t : N) (args : list Z) : option (lbl params_proto) :=
  match t, args with
  | 0%N, [w] => Some (@LPoll params_proto (Z.to_nat w) tt)
  | 1%N, [0%Z] => Some (@LOp params_proto (PmRecv true))
  | 1%N, [1%Z] => Some (@LOp params_proto PmScid)
  | 1%N, [2%Z] => Some (@LOp params_proto (PmRecv false))
  | 2%N, [] => Some (@LOp params_proto PmConnError)
  | 3%N, [w] => Some (LDrop (Z.to_nat w))
  | _, _ => None
  end.

(* ==================================================================================== *)
(* 6. CidCell + SendWaker  (qbase/src/cid/remote_cid.rs)   -- a composite protocol:
      the condition (a connection id is allocated, or the cell is retired) lives in the
      CidCell behind ITS Mutex together with `waker: Option<ArcSendWaker>`; the task's Waker
      lives in the SendWaker behind ANOTHER Mutex.  The sending task does
          borrow_cid(tx_waker)      -- cell lock: check; if empty store the ArcSendWaker
          tx_waker.wait_for(CID)    -- SendWaker lock: poll_wait_for
      and `assign` / `retire` (cell lock, nested SendWaker lock) do set; waker.take(); wake_by.
      Small steps: one label per lock-protected call; the waiter has a program counter.  *)

Definition sig_bit (k : nat) : sigs := fun i => Nat.eqb i k.
Definition CIDBIT : nat := 4.            (* Signals::CONNECTION_ID = 1 << 4 *)

(* the composite protocols have ONE waiter (the path's sending task, waiter 0): its ghost
   record is kept directly *)
Definition tk0 : task unit := mkTask false false 0%N tt.
Definition tk_polled (t : task unit) (pending : bool) : task unit := mkTask pending false (t_cnt t) tt.
Definition tk_dropped (t : task unit) : task unit := mkTask false false (t_cnt t) tt.
Definition tk_wake (t : task unit) : task unit := mkTask (t_sleep t) true (t_cnt t + 1) tt.
Definition tk_wakes (wk : list wid) (t : task unit) : task unit := fold_left (fun t _ => tk_wake t) wk t.
Definition obs1 (code : Z) (t : task unit) : list Z := [code; Z.of_N (t_cnt t); 0%Z; 0%Z].

Inductive cpc := CIdle | CNeed.          (* CNeed: borrow_cid returned Err(CONNECTION_ID), wait_for not yet polled *)

Record ccst := mkCc { cc_alloc : bool; cc_cw : bool; cc_ret : bool; cc_seq : nat;
                      cc_sw : swobj; cc_pc : cpc; cc_t : task unit }.

Inductive cclbl := CcBorrow | CcWait | CcAssign | CcRetire | CcDrop.

Definition cc_wake (s : ccst) : swobj * task unit :=
  if cc_cw s then let '(sw', wk) := sw_wake (cc_sw s) (sig_bit CIDBIT) in (sw', tk_wakes wk (cc_t s))
  else (cc_sw s, cc_t s).

(* code 5 = borrow_cid returned Err(signals) (internal: the task goes on to wait_for) *)
Definition cc_exec (s : ccst) (l : cclbl) : option (ccst * Z) :=
  match l with
  | CcBorrow =>
      match cc_pc s with
      | CNeed => None
      | CIdle =>
          let t := tk_polled (cc_t s) false in
          if cc_ret s then Some (mkCc (cc_alloc s) (cc_cw s) true (cc_seq s) (cc_sw s) CIdle t, 2%Z)
          else if cc_alloc s then Some (mkCc true (cc_cw s) false (cc_seq s) (cc_sw s) CIdle t, 1%Z)
          else Some (mkCc false true false (cc_seq s) (cc_sw s) CNeed t, 5%Z)
      end
  | CcWait =>        (* first poll of wait_for after borrow_cid said Err, or a re-poll of the parked future *)
      if match cc_pc s with CNeed => true | CIdle => t_sleep (cc_t s) end then
          let '(sw', r) := sw_poll (cc_sw s) 0 (sig_bit CIDBIT) in
          Some (mkCc (cc_alloc s) (cc_cw s) (cc_ret s) (cc_seq s) sw' CIdle
                     (tk_polled (cc_t s) (is_pending r)),
                if is_pending r then 0%Z else 4%Z)
      else None
  | CcAssign =>         (* NEW_CONNECTION_ID received: arrange_idle_cid assigns to a pending, not retired cell *)
      if Nat.leb 8 (cc_seq s) then None
      else if cc_alloc s || cc_ret s then
        Some (mkCc (cc_alloc s) (cc_cw s) (cc_ret s) (S (cc_seq s)) (cc_sw s) (cc_pc s) (cc_t s), 0%Z)
      else let '(sw', t') := cc_wake s in
        Some (mkCc true false false (S (cc_seq s)) sw' (cc_pc s) t', 0%Z)
  | CcRetire =>
      if cc_ret s then Some (s, 0%Z)
      else let '(sw', t') := cc_wake s in
        Some (mkCc false false true (cc_seq s) sw' (cc_pc s) t', 0%Z)
  | CcDrop => Some (mkCc (cc_alloc s) (cc_cw s) (cc_ret s) (cc_seq s) (cc_sw s) CIdle (tk_dropped (cc_t s)), 0%Z)
  end.

Definition cc_init : ccst := mkCc false false false 0 (mkSw None sig_none) CIdle tk0.

Definition cidcell_sys : sys :=
  {| St := ccst; Lbl := cclbl; init := cc_init;
     step := fun s l => match cc_exec s l with Some (s', _) => Some s' | None => None end |}.

Definition cc_cond (s : ccst) : Prop := cc_alloc s = true \/ cc_ret s = true.

(* method granularity for the stream: POLL = borrow_cid, then wait_for if it said Err *)
Definition cc_method (s : ccst) (t : N) (args : list Z) : option (ccst * Z) :=
  match t, args with
  | 0%N, [0%Z] =>
      match cc_exec s CcBorrow with
      | Some (s1, 5%Z) => cc_exec s1 CcWait
      | r => r
      end
  | 1%N, [] => cc_exec s CcAssign
  | 2%N, [] => cc_exec s CcRetire
  | 3%N, [0%Z] => cc_exec s CcDrop
  | 3%N, [_] => Some (s, 0%Z)
  | _, _ => None
  end.

(* runner shared by the composite protocols *)
Fixpoint brun {S : Type} (tk : S -> task unit) (meth : S -> N -> list Z -> option (S * Z))
              (s : S) (ops : list (N * list Z)) : list (list Z) :=
  match ops with
  | [] => []
  | (t, a) :: rest =>
      match (if wok t a then meth s t a else None) with
      | Some (s', c) => obs1 c (tk s') :: brun tk meth s' rest
      | None => obs1 skipped (tk s) :: brun tk meth s rest
      end
  end.

(* ==================================================================================== *)
(* 15. SendBuffer + SendWaker  (qconnection/src/path/util.rs)
      struct SendBuffer<T> { item: Mutex<Option<T>>, tx_waker: ArcSendWaker }
      write(frame):   self.tx_waker.wake_by(TRANSPORT);            -- SendWaker lock
                      *self.item.lock().unwrap() = Some(frame);     -- item lock
      The path's sending task: try_load_frames_into (item lock) -> Err(TRANSPORT) when empty,
      then tx_waker.wait_for(TRANSPORT).  The two statements of `write` are two separately
      locked steps; `sb_fixed = true` is the order store-then-wake.                       *)

Definition TRBIT : nat := 2.             (* Signals::TRANSPORT = 1 << 2 *)

Record sbst := mkSb { sb_item : bool; sb_nw : nat;      (* writers between their two steps *)
                      sb_sw : swobj; sb_pc : cpc; sb_t : task unit }.

Inductive sblbl := SbLoad | SbWait | SbWrite1 | SbWrite2 | SbDrop.

Definition sb_do_wake (s : sbst) : swobj * task unit :=
  let '(sw', wk) := sw_wake (sb_sw s) (sig_bit TRBIT) in (sw', tk_wakes wk (sb_t s)).

Definition sb_exec (fixed : bool) (s : sbst) (l : sblbl) : option (sbst * Z) :=
  match l with
  | SbLoad =>
      match sb_pc s with
      | CNeed => None
      | CIdle =>
          let t := tk_polled (sb_t s) false in
          if sb_item s then Some (mkSb false (sb_nw s) (sb_sw s) CIdle t, 1%Z)
          else Some (mkSb false (sb_nw s) (sb_sw s) CNeed t, 5%Z)
      end
  | SbWait =>
      if match sb_pc s with CNeed => true | CIdle => t_sleep (sb_t s) end then
          let '(sw', r) := sw_poll (sb_sw s) 0 (sig_bit TRBIT) in
          Some (mkSb (sb_item s) (sb_nw s) sw' CIdle (tk_polled (sb_t s) (is_pending r)),
                if is_pending r then 0%Z else 4%Z)
      else None
  | SbWrite1 =>
      if fixed then Some (mkSb true (S (sb_nw s)) (sb_sw s) (sb_pc s) (sb_t s), 0%Z)
      else let '(sw', t') := sb_do_wake s in Some (mkSb (sb_item s) (S (sb_nw s)) sw' (sb_pc s) t', 0%Z)
  | SbWrite2 =>
      match sb_nw s with
      | O => None
      | S n =>
          if fixed then let '(sw', t') := sb_do_wake s in Some (mkSb (sb_item s) n sw' (sb_pc s) t', 0%Z)
          else Some (mkSb true n (sb_sw s) (sb_pc s) (sb_t s), 0%Z)
      end
  | SbDrop => Some (mkSb (sb_item s) (sb_nw s) (sb_sw s) CIdle (tk_dropped (sb_t s)), 0%Z)
  end.

Definition sb_init : sbst := mkSb false 0 (mkSw None sig_none) CIdle tk0.

Definition sendbuffer_gen_sys (fixed : bool) : sys :=
  {| St := sbst; Lbl := sblbl; init := sb_init;
     step := fun s l => match sb_exec fixed s l with Some (s', _) => Some s' | None => None end |}.
Definition sendbuffer_sys := sendbuffer_gen_sys false.        (* the code as it is *)
Definition sendbuffer_fixed_sys := sendbuffer_gen_sys true.   (* store, then wake *)

(* the waiter's method: try_load, then wait_for if empty *)
Definition sb_poll_method (fixed : bool) (s : sbst) : option (sbst * Z) :=
  match sb_exec fixed s SbLoad with
  | Some (s1, 5%Z) => sb_exec fixed s1 SbWait
  | r => r
  end.

(* the waiter runs until it parks or gets the frame (at most 3 rounds are ever needed) *)
Fixpoint sb_poll_loop (fixed : bool) (fuel : nat) (s : sbst) : option (sbst * Z) :=
  match sb_poll_method fixed s with
  | Some (s1, 4%Z) => match fuel with O => Some (s1, 4%Z) | S f => sb_poll_loop fixed f s1 end
  | r => r
  end.

Definition bind_st {S : Type} (r : option (S * Z)) (f : S -> option (S * Z)) : option (S * Z) :=
  match r with Some (s, _) => f s | None => None end.

(* NOTIFY 0 = write();  NOTIFY 1 = write() with the sending task running between its two locked
   steps (the harness installs the cfg(gmquic_verif) hook of SendBuffer::write for this) *)
Definition sb_method (fixed : bool) (s : sbst) (t : N) (args : list Z) : option (sbst * Z) :=
  match t, args with
  | 0%N, [0%Z] => sb_poll_method fixed s
  | 1%N, [0%Z] => bind_st (sb_exec fixed s SbWrite1) (fun s1 => sb_exec fixed s1 SbWrite2)
  | 1%N, [1%Z] =>
      bind_st (sb_exec fixed s SbWrite1) (fun s1 =>
        match sb_poll_loop fixed 3 s1 with
        | Some (s2, c) => match sb_exec fixed s2 SbWrite2 with Some (s3, _) => Some (s3, c) | None => None end
        | None => None
        end)
  | 3%N, [0%Z] => sb_exec fixed s SbDrop
  | 3%N, [_] => Some (s, 0%Z)
  | _, _ => None
  end.

(* ==================================================================================== *)
(* 14. AntiAmplifier + SendWaker  (qconnection/src/path/aa.rs) -- atomic granularity.
      credit: AtomicUsize, state: AtomicU8 (NORMAL/GRANTED/ABORTED), tx_waker: ArcSendWaker.
      balance():   s1 = state.load; (NORMAL) c = credit.load; (c == 0) s2 = state.load;
                   s2 == NORMAL ? Err(CREDIT) : { tx_waker.wake_by(CREDIT); Ok(..) }
      then the task does tx_waker.wait_for(CREDIT).
      on_rcvd(n):  state.load == NORMAL ? { credit.fetch_add(3n); tx_waker.wake_by(CREDIT) }
      grant/abort: state.compare_exchange(NORMAL, X) ok ? tx_waker.wake_by(CREDIT)
      on_sent(n):  state.load == NORMAL ? credit.fetch_sub(n)
      Any number of notifier calls may be in flight at once (`aa_fl`: the calls that have done
      their first atomic step and not yet their last).                                   *)

Definition CRBIT : nat := 5.             (* Signals::CREDIT = 1 << 5 *)

Inductive aast := AaNormal | AaGranted | AaAborted.
Inductive aapc := APIdle | APCredit | APRecheck | APSelfWake (granted : bool) | APNeed
                | APSpend (n : N).       (* on_sent: state loaded NORMAL, fetch_sub pending *)
Inductive aafl := FlAdd (n : N)          (* on_rcvd: state loaded NORMAL, fetch_add pending *)
                | FlWake.                (* credit added / CAS done, wake_by pending *)

Record aaobj := mkAa { aa_credit : N; aa_state : aast; aa_sw : swobj; aa_pc : aapc;
                       aa_fl : list aafl; aa_t : task unit }.

Inductive aalbl :=
| AaB1 | AaB2 | AaB3 | AaBW | AaWait           (* the sending task: balance() step by step, then wait_for *)
| AaSpend1 (n : N) | AaSpend2                   (* the sending task: on_sent(n) *)
| AaRcvd (n : N) | AaGrant | AaAbort            (* first atomic step of a notifier call *)
| AaFl (i : nat)                                (* next step of the i-th call in flight *)
| AaDrop.

Definition aa_set (s : aaobj) (c : N) (st : aast) (sw : swobj) (pc : aapc) (fl : list aafl) (t : task unit) :=
  mkAa c st sw pc fl t.

Fixpoint fl_step (i : nat) (fl : list aafl) : option (aafl * list aafl * list aafl) :=
  match fl, i with
  | [], _ => None
  | x :: rest, O => Some (x, [], rest)
  | x :: rest, S j => match fl_step j rest with Some (y, a, b) => Some (y, x :: a, b) | None => None end
  end.

Definition aa_do_wake (s : aaobj) : swobj * task unit :=
  let '(sw', wk) := sw_wake (aa_sw s) (sig_bit CRBIT) in (sw', tk_wakes wk (aa_t s)).

(* codes: 1 = Ok(Some(usize::MAX)) granted, 2 = Ok(None) aborted, 100+c = Ok(Some(c)),
   5/6/7/8 = internal (balance still running / Err(CREDIT) returned), 0/4 = wait_for Pending / Ready *)
Definition aa_exec (s : aaobj) (l : aalbl) : option (aaobj * Z) :=
  let awake := tk_polled (aa_t s) false in
  match l with
  | AaB1 =>
      match aa_pc s with
      | APIdle =>
          match aa_state s with
          | AaGranted => Some (mkAa (aa_credit s) (aa_state s) (aa_sw s) APIdle (aa_fl s) awake, 1%Z)
          | AaAborted => Some (mkAa (aa_credit s) (aa_state s) (aa_sw s) APIdle (aa_fl s) awake, 2%Z)
          | AaNormal => Some (mkAa (aa_credit s) (aa_state s) (aa_sw s) APCredit (aa_fl s) awake, 6%Z)
          end
      | _ => None
      end
  | AaB2 =>
      match aa_pc s with
      | APCredit =>
          if (aa_credit s =? 0)%N then Some (mkAa (aa_credit s) (aa_state s) (aa_sw s) APRecheck (aa_fl s) (aa_t s), 7%Z)
          else Some (mkAa (aa_credit s) (aa_state s) (aa_sw s) APIdle (aa_fl s) (aa_t s), (100 + Z.of_N (aa_credit s))%Z)
      | _ => None
      end
  | AaB3 =>
      match aa_pc s with
      | APRecheck =>
          match aa_state s with
          | AaNormal => Some (mkAa (aa_credit s) (aa_state s) (aa_sw s) APNeed (aa_fl s) (aa_t s), 5%Z)
          | AaGranted => Some (mkAa (aa_credit s) (aa_state s) (aa_sw s) (APSelfWake true) (aa_fl s) (aa_t s), 8%Z)
          | AaAborted => Some (mkAa (aa_credit s) (aa_state s) (aa_sw s) (APSelfWake false) (aa_fl s) (aa_t s), 8%Z)
          end
      | _ => None
      end
  | AaBW =>
      match aa_pc s with
      | APSelfWake g =>
          let '(sw', t') := aa_do_wake s in
          Some (mkAa (aa_credit s) (aa_state s) sw' APIdle (aa_fl s) t', if g then 1%Z else 2%Z)
      | _ => None
      end
  | AaWait =>
      if match aa_pc s with APNeed => true | APIdle => t_sleep (aa_t s) | _ => false end then
          let '(sw', r) := sw_poll (aa_sw s) 0 (sig_bit CRBIT) in
          Some (mkAa (aa_credit s) (aa_state s) sw' APIdle (aa_fl s) (tk_polled (aa_t s) (is_pending r)),
                if is_pending r then 0%Z else 4%Z)
      else None
  | AaSpend1 n =>
      match aa_pc s with
      | APIdle =>
          if t_sleep (aa_t s) then None
          else match aa_state s with
               | AaNormal => Some (mkAa (aa_credit s) (aa_state s) (aa_sw s) (APSpend n) (aa_fl s) (aa_t s), 0%Z)
               | _ => Some (s, 0%Z)
               end
      | _ => None
      end
  | AaSpend2 =>
      match aa_pc s with
      | APSpend n =>
          (* fetch_sub; the caller never reports more than balance() granted (wrap-around is C15/F19) *)
          if (n <=? aa_credit s)%N then Some (mkAa (aa_credit s - n) (aa_state s) (aa_sw s) APIdle (aa_fl s) (aa_t s), 0%Z)
          else None
      | _ => None
      end
  | AaRcvd n =>
      match aa_state s with
      | AaNormal => Some (mkAa (aa_credit s) (aa_state s) (aa_sw s) (aa_pc s) (aa_fl s ++ [FlAdd n]) (aa_t s), 0%Z)
      | _ => Some (s, 0%Z)
      end
  | AaGrant =>
      match aa_state s with
      | AaNormal => Some (mkAa (aa_credit s) AaGranted (aa_sw s) (aa_pc s) (aa_fl s ++ [FlWake]) (aa_t s), 0%Z)
      | _ => Some (s, 0%Z)
      end
  | AaAbort =>
      match aa_state s with
      | AaNormal => Some (mkAa (aa_credit s) AaAborted (aa_sw s) (aa_pc s) (aa_fl s ++ [FlWake]) (aa_t s), 0%Z)
      | _ => Some (s, 0%Z)
      end
  | AaFl i =>
      match fl_step i (aa_fl s) with
      | Some (FlAdd n, a, b) =>
          Some (mkAa (aa_credit s + 3 * n) (aa_state s) (aa_sw s) (aa_pc s) (a ++ FlWake :: b) (aa_t s), 0%Z)
      | Some (FlWake, a, b) =>
          let '(sw', t') := aa_do_wake s in
          Some (mkAa (aa_credit s) (aa_state s) sw' (aa_pc s) (a ++ b) t', 0%Z)
      | None => None
      end
  | AaDrop =>
      match aa_pc s with
      | APSpend _ => None
      | _ => Some (mkAa (aa_credit s) (aa_state s) (aa_sw s) APIdle (aa_fl s) (tk_dropped (aa_t s)), 0%Z)
      end
  end.

Definition aa_init : aaobj := mkAa 0 AaNormal (mkSw None sig_none) APIdle [] tk0.

Definition aa_sys : sys :=
  {| St := aaobj; Lbl := aalbl; init := aa_init;
     step := fun s l => match aa_exec s l with Some (s', _) => Some s' | None => None end |}.

Definition aa_cond (s : aaobj) : Prop := (0 < aa_credit s)%N \/ aa_state s <> AaNormal.

(* method granularity for the stream *)
Fixpoint aa_seq (s : aaobj) (ls : list aalbl) : option (aaobj * Z) :=
  match ls with
  | [] => Some (s, 0%Z)
  | [l] => aa_exec s l
  | l :: rest => match aa_exec s l with Some (s', _) => aa_seq s' rest | None => None end
  end.

(* balance(); on Ok(Some(c)) the task sends and reports on_sent(c); on Err it polls wait_for *)
Definition aa_poll_method (s : aaobj) : option (aaobj * Z) :=
  match aa_exec s AaB1 with
  | Some (s1, 6%Z) =>
      match aa_exec s1 AaB2 with
      | Some (s2, 7%Z) =>
          match aa_exec s2 AaB3 with
          | Some (s3, 5%Z) => aa_exec s3 AaWait
          | Some (s3, _) => aa_exec s3 AaBW
          | None => None
          end
      | Some (s2, c) =>
          match aa_seq s2 [AaSpend1 (Z.to_N (c - 100)); AaSpend2] with
          | Some (s4, _) => Some (s4, c)
          | None => None
          end
      | None => None
      end
  | r => r
  end.

Definition aa_method (s : aaobj) (t : N) (args : list Z) : option (aaobj * Z) :=
  match t, args with
  | 0%N, [0%Z] => aa_poll_method s
  | 1%N, [n] =>
      if (0 <=? n)%Z && (n <? 1000)%Z then
        match aa_state s with
        | AaNormal => aa_seq s [AaRcvd (Z.to_N n); AaFl (length (aa_fl s)); AaFl (length (aa_fl s))]
        | _ => aa_exec s (AaRcvd (Z.to_N n))
        end
      else None
  | 2%N, [0%Z] =>
      match aa_state s with
      | AaNormal => aa_seq s [AaGrant; AaFl (length (aa_fl s))]
      | _ => aa_exec s AaGrant
      end
  | 2%N, [1%Z] =>
      match aa_state s with
      | AaNormal => aa_seq s [AaAbort; AaFl (length (aa_fl s))]
      | _ => aa_exec s AaAbort
      end
  | 3%N, [0%Z] => aa_exec s AaDrop
  | 3%N, [_] => Some (s, 0%Z)
  | _, _ => None
  end.

(* ==================================================================================== *)
(* 7. KeysState / ArcKeys  (qbase/src/packet/keys.rs); OneRttKeysState / ArcOneRttKeys and
      ArcZeroRttKeys have the same three states and the same code shape.
      enum KeysState<K> { Pending(Option<Waker>), Ready(K), Invalid }  behind a Mutex.   *)

Inductive kyobj := KyPending (w : option wid) | KyReady | KyInvalid.

Definition ky_poll (o : kyobj) (w : wid) : option (kyobj * list wid * pres) :=
  match o with
  | KyPending (Some w') => if Nat.eqb w' w then Some (KyPending (Some w), [], Pending)
                           else None            (* unreachable!("... from multiple tasks") *)
  | KyPending None => Some (KyPending (Some w), [], Pending)
  | KyReady => Some (KyReady, [], Ready 1)
  | KyInvalid => Some (KyInvalid, [], Ready 2)
  end.

Inductive ky_op := KySet | KyInvalidate.

Definition ky_oper (o : kyobj) (op : ky_op) : option (kyobj * list wid * Z) :=
  match op, o with
  | KySet, KyPending w => Some (KyReady, take_waker w, 0%Z)
  | KySet, _ => None                            (* unreachable!("set called twice / after invalidation") *)
  | KyInvalidate, KyPending w => Some (KyInvalid, take_waker w, 0%Z)
  | KyInvalidate, KyReady => Some (KyInvalid, [], 1%Z)       (* returns the keys *)
  | KyInvalidate, KyInvalid => Some (KyInvalid, [], 0%Z)
  end.

Definition keys_proto : proto :=
  {| Obj := kyobj; PArg := unit; Op := ky_op;
     obj0 := KyPending None; arg0 := tt;
     poll := fun o w _ => if single w then ky_poll o w else None;
     oper := ky_oper |}.

Definition ky_cond (o : kyobj) (_ : unit) : Prop := match o with KyPending _ => False | _ => True end.

Definition ky_dec (t : N) (args : list Z) : option (lbl keys_proto) :=
  match t, args with
  | 0%N, [w] => Some (@LPoll keys_proto (Z.to_nat w) tt)
  | 1%N, [] => Some (@LOp keys_proto KySet)
  | 2%N, [] => Some (@LOp keys_proto KyInvalidate)
  | 3%N, [w] => Some (LDrop (Z.to_nat w))
  | _, _ => None
  end.

(* ==================================================================================== *)
(* 8. LocalStreamIds::poll_alloc_sid under DataStreams  (qbase/src/sid/local_sid.rs,
      qrecovery/src/streams/raw.rs)
      LocalStreamIds { max, unallocated, wakers: [VecDeque<Waker>; 2], .. } behind its Mutex.
      poll_open_bi_stream holds the output/input guards (Err once the connection failed) and
      then calls poll_alloc_sid: unallocated < max ? allocate : push the Waker, Pending.
      increase_limit (MAX_STREAMS) drains and wakes the list, then raises max.
      DataStreams::on_conn_error (same guards) poisons output/input/listener -- and, in the
      code as it is, never touches the stream-id wakers (finding F23).                   *)

Record sdobj := mkSd { sd_max : N; sd_un : N; sd_wk : list wid; sd_closed : bool }.

Definition sd_poll (o : sdobj) (w : wid) : sdobj * pres :=
  if sd_closed o then (o, Ready 2)
  else if (sd_un o <? sd_max o)%N then
    (mkSd (sd_max o) (sd_un o + 1) (sd_wk o) false, Ready (100 + Z.of_N (sd_un o)))
  else (mkSd (sd_max o) (sd_un o) (sd_wk o ++ [w]) false, Pending).

Inductive sd_op := SdMax (n : N) | SdConnError.

Definition sd_oper (fixed : bool) (o : sdobj) (op : sd_op) : sdobj * list wid :=
  match op with
  | SdMax n =>
      if (sd_max o <? n)%N then (mkSd n (sd_un o) [] (sd_closed o), sd_wk o) else (o, [])
  | SdConnError =>
      if sd_closed o then (o, [])
      else if fixed then (mkSd (sd_max o) (sd_un o) [] true, sd_wk o)
      else (mkSd (sd_max o) (sd_un o) (sd_wk o) true, [])
  end.

Definition sid_gen_proto (fixed : bool) (m0 : N) : proto :=
  {| Obj := sdobj; PArg := unit; Op := sd_op;
     obj0 := mkSd m0 0 [] false; arg0 := tt;
     poll := fun o w _ => let '(o', r) := sd_poll o w in Some (o', [], r);
     oper := fun o op => let '(o', wk) := sd_oper fixed o op in Some (o', wk, 0%Z) |}.
Definition sid_proto := sid_gen_proto false.          (* the code as it is *)
Definition sid_fixed_proto := sid_gen_proto true.     (* with the fix commit *)

Definition sd_cond_limit (o : sdobj) (_ : unit) : Prop := (sd_un o < sd_max o)%N.
Definition sd_cond (o : sdobj) (_ : unit) : Prop := sd_closed o = true \/ (sd_un o < sd_max o)%N.

Definition sd_dec (P : proto) (mkop : sd_op -> Op P) (t : N) (args : list Z) : option (lbl P) :=
  match t, args with
  | 0%N, [w] => Some (LPoll (Z.to_nat w) (arg0 P))
  | 1%N, [n] => Some (LOp (mkop (SdMax (Z.to_N n))))
  | 2%N, [] => Some (LOp (mkop SdConnError))
  | 3%N, [w] => Some (LDrop (Z.to_nat w))
  | _, _ => None
  end.

(* ==================================================================================== *)
(* 11. crypto stream, sending side  (qrecovery/src/crypto.rs, mod send)
      Sender { sndbuf, writable_waker, flush_waker, .. } behind a Mutex.  poll_write never
      parks (the buffer is unbounded); poll_flush parks in flush_waker until everything
      written has been acknowledged; on_data_acked wakes writable_waker only -- which nobody
      ever sets (finding F24).  Abstract buffer: written >= sent >= acked byte counts.   *)

Record csobj := mkCs { cs_w : N; cs_s : N; cs_a : N; cs_fw : option wid }.
Inductive cs_arg := CsWrite | CsFlush.

Definition cs_poll (o : csobj) (w : wid) (a : cs_arg) : csobj * pres :=
  match a with
  | CsWrite => (mkCs (cs_w o + 8) (cs_s o) (cs_a o) (cs_fw o), Ready 1)
  | CsFlush => if (cs_a o =? cs_w o)%N then (o, Ready 1)
               else (mkCs (cs_w o) (cs_s o) (cs_a o) (Some w), Pending)
  end.

Inductive cs_op := CsLoad | CsAck | CsLoadAck.

(* on_data_acked after the abstract buffer moved to (w, s, a') *)
Definition cs_acked (fixed : bool) (o : csobj) (s' a' : N) : csobj * list wid :=
  if fixed && (a' =? cs_w o)%N then (mkCs (cs_w o) s' a' None, take_waker (cs_fw o))
  else (mkCs (cs_w o) s' a' (cs_fw o), []).

Definition cs_oper (fixed : bool) (o : csobj) (op : cs_op) : csobj * list wid :=
  match op with
  | CsLoad => (mkCs (cs_w o) (cs_w o) (cs_a o) (cs_fw o), [])
  | CsAck => cs_acked fixed o (cs_s o) (cs_s o)
  | CsLoadAck => cs_acked fixed o (cs_w o) (cs_w o)
  end.

Definition crypto_send_gen_proto (fixed : bool) : proto :=
  {| Obj := csobj; PArg := cs_arg; Op := cs_op;
     obj0 := mkCs 0 0 0 None; arg0 := CsWrite;
     poll := fun o w a => if single w then let '(o', r) := cs_poll o w a in Some (o', [], r) else None;
     oper := fun o op => let '(o', wk) := cs_oper fixed o op in Some (o', wk, 0%Z) |}.
Definition crypto_send_proto := crypto_send_gen_proto false.
Definition crypto_send_fixed_proto := crypto_send_gen_proto true.

Definition cs_cond (o : csobj) (a : cs_arg) : Prop :=
  match a with CsWrite => True | CsFlush => cs_a o = cs_w o end.

Definition cs_dec (P : proto) (mkarg : cs_arg -> PArg P) (mkop : cs_op -> Op P) (t : N) (args : list Z) : option (lbl P) :=
  match t, args with
  | 0%N, [w; 0%Z] => Some (LPoll (Z.to_nat w) (mkarg CsWrite))
  | 0%N, [w; 1%Z] => Some (LPoll (Z.to_nat w) (mkarg CsFlush))
  | 1%N, [0%Z] => Some (LOp (mkop CsLoadAck))
  | 1%N, [1%Z] => Some (LOp (mkop CsLoad))
  | 1%N, [2%Z] => Some (LOp (mkop CsAck))
  | 3%N, [w] => Some (LDrop (Z.to_nat w))
  | _, _ => None
  end.

(* ==================================================================================== *)
(* 12. crypto stream, receiving side  (qrecovery/src/crypto.rs, mod recv)
      Recver { rcvbuf, read_waker } behind a Mutex; frames delivered in order here.     *)

Record crobj := mkCr { cr_avail : N; cr_w : option wid }.

Definition cr_poll (o : crobj) (w : wid) : crobj * pres :=
  if (0 <? cr_avail o)%N then (mkCr 0 (cr_w o), Ready (100 + Z.of_N (cr_avail o)))
  else (mkCr 0 (Some w), Pending).

Inductive cr_op := CrRecv (len : N).

Definition cr_oper (o : crobj) (op : cr_op) : crobj * list wid :=
  match op with
  | CrRecv len =>
      if (0 <? cr_avail o + len)%N then (mkCr (cr_avail o + len) None, take_waker (cr_w o))
      else (o, [])
  end.

Definition crypto_recv_proto : proto :=
  {| Obj := crobj; PArg := unit; Op := cr_op;
     obj0 := mkCr 0 None; arg0 := tt;
     poll := fun o w _ => if single w then let '(o', r) := cr_poll o w in Some (o', [], r) else None;
     oper := fun o op => let '(o', wk) := cr_oper o op in Some (o', wk, 0%Z) |}.

Definition cr_cond (o : crobj) (_ : unit) : Prop := (0 < cr_avail o)%N.

Definition cr_dec (t : N) (args : list Z) : option (lbl crypto_recv_proto) :=
  match t, args with
  | 0%N, [w] => Some (@LPoll crypto_recv_proto (Z.to_nat w) tt)
  | 1%N, [n] => Some (@LOp crypto_recv_proto (CrRecv (Z.to_N n)))
  | 3%N, [w] => Some (LDrop (Z.to_nat w))
  | _, _ => None
  end.

(* ==================================================================================== *)
(* 10. stream receiver  (qrecovery/src/recv/recver.rs, incoming.rs, reader.rs, streams/raw.rs)
      Mutex<Result<Recver, Error>>, Recver = Recv | SizeKnown | DataRcvd | DataRead |
      ResetRcvd | ResetRead; Recv / SizeKnown hold `read_waker: Option<Waker>`.
      Frames arrive in order except that ONE frame may be lost on the way (a hole right after the
      contiguous part, `rv_hole` bytes long) and retransmitted later; what arrives behind the hole
      (`rv_beyond` bytes) is not readable.  FIN behind a hole makes SizeKnown a RESTING state:
      the reader parks in SizeKnown::poll_read, and data, RESET_STREAM or the connection error
      must wake it from there.  Without a hole SizeKnown is passed through inside one call
      (determin_size wakes, recv wakes, upgrade wakes).
      `rv_fin` mirrors the harness ("a FIN frame has been delivered"): no frame is lost after it. *)

Inductive rvstage := RvRecv | RvSizeKnown | RvDataRcvd | RvDataRead | RvResetRcvd | RvResetRead | RvErr.

Record rvobj := mkRv { rv_st : rvstage; rv_avail : N; rv_w : option wid;
                       rv_hole : N; rv_beyond : N; rv_fin : bool }.

(* stage / readable bytes / waker change, the bookkeeping of the hole stays *)
Definition rv_set (o : rvobj) (st : rvstage) (avail : N) (w : option wid) : rvobj :=
  mkRv st avail w (rv_hole o) (rv_beyond o) (rv_fin o).

Definition rv_live (st : rvstage) : bool :=
  match st with RvRecv | RvSizeKnown => true | _ => false end.

(* Reader::poll_read: Recv::poll_read and SizeKnown::poll_read are the same check-and-register *)
Definition rv_poll (o : rvobj) (w : wid) : rvobj * pres :=
  match rv_st o with
  | RvRecv | RvSizeKnown =>
      if (0 <? rv_avail o)%N then (rv_set o (rv_st o) 0 (rv_w o), Ready (100 + Z.of_N (rv_avail o)))
      else (rv_set o (rv_st o) 0 (Some w), Pending)
  | RvDataRcvd => (rv_set o RvDataRead 0 None, Ready (100 + Z.of_N (rv_avail o)))
  | RvDataRead => (o, Ready 100)
  | RvResetRcvd => (rv_set o RvResetRead 0 None, Ready 2)
  | RvResetRead => (o, Ready 2)
  | RvErr => (o, Ready 2)
  end.

Inductive rv_op :=
| RvData (len : N) | RvFin (len : N)      (* STREAM frame at the next offset, without / with FIN *)
| RvLose (len : N)                        (* the frame at the next offset is lost on the way (no call) *)
| RvRetx                                  (* the lost frame is retransmitted *)
| RvReset                                 (* RESET_STREAM, final size consistent with what was sent *)
| RvBadReset                              (* RESET_STREAM with a final size beyond the flow-control limit *)
| RvConnError.

(* a STREAM frame without FIN arriving in stage Recv / a zero-length frame in SizeKnown:
   `if self.rcvbuf.is_readable() && let Some(waker) = self.read_waker.take() { waker.wake() }` *)
Definition rv_wake_if_readable (o : rvobj) (st : rvstage) (avail beyond : N) : rvobj * list wid * Z :=
  if (0 <? avail)%N then (mkRv st avail None (rv_hole o) beyond (rv_fin o), take_waker (rv_w o), 0%Z)
  else (mkRv st avail (rv_w o) (rv_hole o) beyond (rv_fin o), [], 0%Z).

(* result code: 0 = Ok, 1 = Err(QuicError) (FinalSize / FlowControl: the frame changed nothing).
   Frames for a stream that has left Recv / SizeKnown are ignored (it was removed from the table). *)
Definition rv_oper (o : rvobj) (op : rv_op) : option (rvobj * list wid * Z) :=
  match op with
  | RvLose len =>
      if (rv_hole o =? 0)%N && negb (rv_fin o) && (0 <? len)%N
      then Some (mkRv (rv_st o) (rv_avail o) (rv_w o) len 0 false, [], 0%Z)
      else None
  | RvRetx =>
      if (0 <? rv_hole o)%N then
        let all := (rv_avail o + rv_hole o + rv_beyond o)%N in
        match rv_st o with
        | RvRecv => Some (mkRv RvRecv all None 0 0 (rv_fin o), take_waker (rv_w o), 0%Z)
        | RvSizeKnown =>      (* recv wakes; is_all_rcvd: upgrade -> DataRcvd *)
            Some (mkRv RvDataRcvd all None 0 0 (rv_fin o), take_waker (rv_w o), 0%Z)
        | _ => Some (mkRv (rv_st o) (rv_avail o) (rv_w o) 0 0 (rv_fin o), [], 0%Z)
        end
      else None
  | RvData len =>
      match rv_st o with
      | RvRecv =>
          if (rv_hole o =? 0)%N then Some (rv_wake_if_readable o RvRecv (rv_avail o + len) 0)
          else Some (rv_wake_if_readable o RvRecv (rv_avail o) (rv_beyond o + len))
      | RvSizeKnown =>      (* the next offset is the final size: only an empty frame fits *)
          if (0 <? len)%N then Some (o, [], 1%Z)
          else Some (rv_wake_if_readable o RvSizeKnown (rv_avail o) (rv_beyond o))
      | _ => Some (o, [], 0%Z)
      end
  | RvFin len =>
      match rv_st o with
      | RvRecv =>           (* determin_size wakes the reader unconditionally *)
          if (rv_hole o =? 0)%N
          then Some (mkRv RvDataRcvd (rv_avail o + len) None 0 0 true, take_waker (rv_w o), 0%Z)
          else Some (mkRv RvSizeKnown (rv_avail o) None (rv_hole o) (rv_beyond o + len) true,
                     take_waker (rv_w o), 0%Z)
      | RvSizeKnown =>
          if (0 <? len)%N then Some (o, [], 1%Z)
          else Some (rv_wake_if_readable o RvSizeKnown (rv_avail o) (rv_beyond o))
      | _ => Some (mkRv (rv_st o) (rv_avail o) (rv_w o) (rv_hole o) (rv_beyond o) true, [], 0%Z)
      end
  | RvReset =>
      if rv_live (rv_st o) then Some (rv_set o RvResetRcvd 0 None, take_waker (rv_w o), 0%Z)
      else Some (o, [], 0%Z)
  | RvBadReset =>
      if rv_live (rv_st o) then Some (o, [], 1%Z) else Some (o, [], 0%Z)
  | RvConnError =>
      if rv_live (rv_st o) then Some (rv_set o RvErr 0 None, take_waker (rv_w o), 0%Z)
      else Some (o, [], 0%Z)       (* Incoming::on_conn_error: `_ => return` *)
  end.

Definition recver_proto : proto :=
  {| Obj := rvobj; PArg := unit; Op := rv_op;
     obj0 := mkRv RvRecv 0 None 0 0 false; arg0 := tt;
     poll := fun o w _ => if single w then let '(o', r) := rv_poll o w in Some (o', [], r) else None;
     oper := rv_oper |}.

Definition rv_cond (o : rvobj) (_ : unit) : Prop :=
  match rv_st o with RvRecv | RvSizeKnown => (0 < rv_avail o)%N | _ => True end.

Definition rv_dec (t : N) (args : list Z) : option (lbl recver_proto) :=
  match t, args with
  | 0%N, [w] => Some (@LPoll recver_proto (Z.to_nat w) tt)
  | 1%N, [0%Z; n] => Some (@LOp recver_proto (RvData (Z.to_N n)))
  | 1%N, [1%Z; n] => Some (@LOp recver_proto (RvFin (Z.to_N n)))
  | 1%N, [2%Z; n] => Some (@LOp recver_proto (RvLose (Z.to_N n)))
  | 1%N, [3%Z] => Some (@LOp recver_proto RvRetx)
  | 2%N, [0%Z] => Some (@LOp recver_proto RvConnError)
  | 2%N, [1%Z] => Some (@LOp recver_proto RvReset)
  | 2%N, [2%Z] => Some (@LOp recver_proto RvBadReset)
  | 3%N, [w] => Some (LDrop (Z.to_nat w))
  | _, _ => None
  end.

(* ==================================================================================== *)
(* 9. stream sender  (qrecovery/src/send/sender.rs, writer.rs, outgoing.rs)
      Mutex<Result<Sender, Error>>, Sender = Ready | Sending | DataSent | DataRcvd |
      ResetSent | ResetRcvd; the first three hold writable_waker / flush_waker / shutdown_waker
      (DataSent has no writable_waker: `upgrade` drops it); `shutdown_waker.is_some()` doubles
      as "shutdown requested".  Abstract send buffer: written / max_data / sent / acked counts;
      a FIN frame in flight is `sn_fin`.  The transport's work is two ops: LOAD (pick up
      everything the window allows, FIN when shutdown was requested and all data is out) and
      ACK (acknowledge every frame in flight, in order).                                *)

Inductive snstage := SnReady | SnSending | SnDataSent | SnDataRcvd | SnReset | SnErr.
Inductive sn_arg := SnWrite | SnFlush | SnShutdown.

Record snobj := mkSn { sn_st : snstage; sn_w : N; sn_m : N; sn_s : N; sn_a : N; sn_fin : bool;
                       sn_ww : option wid; sn_fw : option wid; sn_sw : option wid }.

Definition sn_live (st : snstage) : bool :=
  match st with SnReady | SnSending => true | _ => false end.
Definition is_some {A} (o : option A) : bool := match o with Some _ => true | None => false end.

Definition sn_poll (o : snobj) (w : wid) (a : sn_arg) : snobj * pres :=
  match a with
  | SnWrite =>
      if sn_live (sn_st o) then
        if is_some (sn_sw o) then (o, Ready 2)                       (* EosSent *)
        else if (sn_w o <? sn_m o)%N then
          (mkSn (sn_st o) (sn_w o + 8) (sn_m o) (sn_s o) (sn_a o) (sn_fin o) (sn_ww o) (sn_fw o) (sn_sw o), Ready 1)
        else (mkSn (sn_st o) (sn_w o) (sn_m o) (sn_s o) (sn_a o) (sn_fin o) (Some w) (sn_fw o) (sn_sw o), Pending)
      else (o, Ready 2)
  | SnFlush =>
      match sn_st o with
      | SnReady | SnSending =>
          if (sn_a o =? sn_w o)%N then (o, Ready 1)
          else (mkSn (sn_st o) (sn_w o) (sn_m o) (sn_s o) (sn_a o) (sn_fin o) (sn_ww o) (Some w) (sn_sw o), Pending)
      | SnDataSent =>
          (mkSn (sn_st o) (sn_w o) (sn_m o) (sn_s o) (sn_a o) (sn_fin o) (sn_ww o) (Some w) (sn_sw o), Pending)
      | SnDataRcvd => (o, Ready 1)
      | _ => (o, Ready 2)
      end
  | SnShutdown =>
      match sn_st o with
      | SnReady | SnSending | SnDataSent =>
          (mkSn (sn_st o) (sn_w o) (sn_m o) (sn_s o) (sn_a o) (sn_fin o) (sn_ww o) (sn_fw o) (Some w), Pending)
      | SnDataRcvd => (o, Ready 1)
      | _ => (o, Ready 2)
      end
  end.

Inductive sn_op := SnMaxData (n : N) | SnLoad | SnAck | SnStop | SnConnError.

Definition sn_wake_all (o : snobj) : list wid :=
  take_waker (sn_ww o) ++ take_waker (sn_fw o) ++ take_waker (sn_sw o).

Definition sn_oper (o : snobj) (op : sn_op) : snobj * list wid :=
  match op with
  | SnMaxData n =>
      if sn_live (sn_st o) && (sn_m o <? n)%N then
        if (sn_w o <? n)%N then
          (mkSn (sn_st o) (sn_w o) n (sn_s o) (sn_a o) (sn_fin o) None (sn_fw o) (sn_sw o), take_waker (sn_ww o))
        else (mkSn (sn_st o) (sn_w o) n (sn_s o) (sn_a o) (sn_fin o) (sn_ww o) (sn_fw o) (sn_sw o), [])
      else (o, [])
  | SnLoad =>
      if sn_live (sn_st o) then
        let s' := N.max (sn_s o) (N.min (sn_w o) (sn_m o)) in
        if is_some (sn_sw o) && (s' =? sn_w o)%N then
          (* everything is out and shutdown was requested: FIN goes out, Sending -> DataSent *)
          (mkSn SnDataSent (sn_w o) (sn_m o) s' (sn_a o) true None (sn_fw o) (sn_sw o), [])
        else (mkSn SnSending (sn_w o) (sn_m o) s' (sn_a o) false (sn_ww o) (sn_fw o) (sn_sw o), [])
      else (o, [])
  | SnAck =>
      match sn_st o with
      | SnSending =>
          if (sn_a o <? sn_s o)%N then
            if (sn_s o =? sn_w o)%N then
              (mkSn SnSending (sn_w o) (sn_m o) (sn_s o) (sn_s o) false (sn_ww o) None (sn_sw o), take_waker (sn_fw o))
            else (mkSn SnSending (sn_w o) (sn_m o) (sn_s o) (sn_s o) false (sn_ww o) (sn_fw o) (sn_sw o), [])
          else (o, [])
      | SnDataSent =>
          if sn_fin o then
            (mkSn SnDataRcvd (sn_w o) (sn_m o) (sn_s o) (sn_s o) false None None None,
             take_waker (sn_fw o) ++ take_waker (sn_sw o))
          else (o, [])
      | _ => (o, [])
      end
  | SnStop =>
      match sn_st o with
      | SnReady | SnSending | SnDataSent =>
          (mkSn SnReset (sn_w o) (sn_m o) (sn_s o) (sn_a o) false None None None, sn_wake_all o)
      | _ => (o, [])
      end
  | SnConnError =>
      match sn_st o with
      | SnReady | SnSending | SnDataSent =>
          (mkSn SnErr (sn_w o) (sn_m o) (sn_s o) (sn_a o) false None None None, sn_wake_all o)
      | _ => (o, [])
      end
  end.

Definition sender_proto (m0 : N) : proto :=
  {| Obj := snobj; PArg := sn_arg; Op := sn_op;
     obj0 := mkSn SnReady 0 m0 0 0 false None None None; arg0 := SnWrite;
     poll := fun o w a => if single w then let '(o', r) := sn_poll o w a in Some (o', [], r) else None;
     oper := fun o op => let '(o', wk) := sn_oper o op in Some (o', wk, 0%Z) |}.

Definition sn_cond (o : snobj) (a : sn_arg) : Prop :=
  match a with
  | SnWrite => sn_live (sn_st o) = true -> sn_sw o <> None \/ (sn_w o < sn_m o)%N
  | SnFlush => match sn_st o with
               | SnReady | SnSending => sn_a o = sn_w o
               | SnDataSent => False
               | _ => True
               end
  | SnShutdown => match sn_st o with SnReady | SnSending | SnDataSent => False | _ => True end
  end.

Definition sn_dec (m0 : N) (t : N) (args : list Z) : option (lbl (sender_proto m0)) :=
  match t, args with
  | 0%N, [w; 0%Z] => Some (@LPoll (sender_proto m0) (Z.to_nat w) SnWrite)
  | 0%N, [w; 1%Z] => Some (@LPoll (sender_proto m0) (Z.to_nat w) SnFlush)
  | 0%N, [w; 2%Z] => Some (@LPoll (sender_proto m0) (Z.to_nat w) SnShutdown)
  | 1%N, [0%Z; n] => Some (@LOp (sender_proto m0) (SnMaxData (Z.to_N n)))
  | 1%N, [1%Z] => Some (@LOp (sender_proto m0) SnLoad)
  | 1%N, [2%Z] => Some (@LOp (sender_proto m0) SnAck)
  | 1%N, [3%Z] => Some (@LOp (sender_proto m0) SnStop)
  | 2%N, [] => Some (@LOp (sender_proto m0) SnConnError)
  | 3%N, [w] => Some (LDrop (Z.to_nat w))
  | _, _ => None
  end.

(* ==================================================================================== *)
(* 13. DatagramIncoming / DatagramReader  (qdatagram/src/reader.rs)
      Mutex<Result<RawDatagramReader { rcvd_datagrams, read_waker: Option<Waker> }, Error>>.
      poll_recv overwrites read_waker ("only the waker set by the last call may be awakened"),
      hence one reader task.                                                             *)

Record dgobj := mkDg { dg_q : list Z; dg_w : option wid; dg_err : bool }.

Definition dg_poll (o : dgobj) (w : wid) : dgobj * pres :=
  if dg_err o then (o, Ready 2)
  else match dg_q o with
       | v :: rest => (mkDg rest (dg_w o) false, Ready (100 + v))
       | [] => (mkDg [] (Some w) false, Pending)
       end.

Inductive dg_op := DgRecv (v : Z) | DgConnError.

Definition dg_oper (o : dgobj) (op : dg_op) : dgobj * list wid * Z :=
  if dg_err o then (o, [], match op with DgRecv _ => 1%Z | DgConnError => 0%Z end)
  else match op with
       | DgRecv v => (mkDg (dg_q o ++ [v]) None false, take_waker (dg_w o), 0%Z)
       | DgConnError => (mkDg [] None true, take_waker (dg_w o), 0%Z)
       end.

Definition datagram_proto : proto :=
  {| Obj := dgobj; PArg := unit; Op := dg_op;
     obj0 := mkDg [] None false; arg0 := tt;
     poll := fun o w _ => if single w then let '(o', r) := dg_poll o w in Some (o', [], r) else None;
     oper := fun o op => Some (dg_oper o op) |}.

Definition dg_cond (o : dgobj) (_ : unit) : Prop := dg_err o = true \/ dg_q o <> [].

Definition dg_dec (t : N) (args : list Z) : option (lbl datagram_proto) :=
  match t, args with
  | 0%N, [w] => Some (@LPoll datagram_proto (Z.to_nat w) tt)
  | 1%N, [v] => Some (@LOp datagram_proto (DgRecv v))
  | 2%N, [] => Some (@LOp datagram_proto DgConnError)
  | 3%N, [w] => Some (LDrop (Z.to_nat w))
  | _, _ => None
  end.

(* ==================================================================================== *)
(* 17. Wakers::combine_with over an event source  (qbase/src/util/wakers.rs; the users are
      UdpSocketController::{poll_send, poll_recv, poll_close} in qinterface/src/io/handy.rs)
          combine_with(cx, poll):  self.register(cx.waker());                  -- Wakers lock
                                   poll(&mut Context::from_waker(&self.to_waker()))
      Any number of tasks poll one shared source through one `Arc<Wakers>`; the source gets the
      COMBINED waker (wake = wake_all).  The source is the harness's: readiness counter, ONE
      registration slot that is taken when it fires (edge-triggered, as tokio's ScheduledIo),
      and what a real inner poll may do with the waker it was given before it returns Pending:
        CbPlain      check readiness; not ready: store the combined waker, Pending;
        CbThrottled  wake the waker it was given and return Pending without looking at readiness
                     (tokio's cooperative budget: `wake_by_ref(); Pending`);
        CbRace       as CbPlain, and a datagram arrives (readiness + the slot fires) right after the
                     inner poll registered, before combine_with does anything else -- the
                     two-thread schedule "notifier between the waiter's check and its return",
                     enumerated at the granularity of the lock-protected steps;
        CbRaceClose  the same schedule with poll_close (wake_all, closed) as the notifier.
      In all of them the calling task must already be in the set when the combined waker is
      invoked: register first, then poll.                                                 *)

Record cbobj := mkCb { cb_regs : list wid; cb_slot : bool; cb_ready : N; cb_closed : bool }.
Inductive cb_arg := CbPlain | CbThrottled | CbRace | CbRaceClose.

(* WakerVec::register: push unless an equal Waker is there *)
Definition cb_register (regs : list wid) (w : wid) : list wid :=
  if existsb (Nat.eqb w) regs then regs else regs ++ [w].

Definition cb_poll (o : cbobj) (w : wid) (a : cb_arg) : cbobj * list wid * pres :=
  if cb_closed o then (o, [], Ready 2)            (* usc()? fails before combine_with *)
  else
    let regs := cb_register (cb_regs o) w in
    match a with
    | CbThrottled => (mkCb [] (cb_slot o) (cb_ready o) false, regs, Pending)
    | _ =>
        if (0 <? cb_ready o)%N then (mkCb regs (cb_slot o) (cb_ready o - 1) false, [], Ready 1)
        else match a with
             | CbRace => (mkCb [] false 1 false, regs, Pending)
             | CbRaceClose => (mkCb [] true 0 true, regs, Pending)
             | _ => (mkCb regs true 0 false, [], Pending)
             end
    end.

Inductive cb_op := CbArrive | CbSpurious | CbClose.

(* the source fires: the slot is taken, the combined waker wakes the whole set *)
Definition cb_fire (o : cbobj) (ready : N) : cbobj * list wid :=
  if cb_slot o then (mkCb [] false ready false, cb_regs o)
  else (mkCb (cb_regs o) false ready false, []).

Definition cb_oper (o : cbobj) (op : cb_op) : cbobj * list wid :=
  if cb_closed o then (o, [])
  else match op with
       | CbArrive => cb_fire o (cb_ready o + 1)
       | CbSpurious => cb_fire o (cb_ready o)
       | CbClose => (mkCb [] (cb_slot o) (cb_ready o) true, cb_regs o)      (* poll_close: wake_all *)
       end.

Definition combine_proto : proto :=
  {| Obj := cbobj; PArg := cb_arg; Op := cb_op;
     obj0 := mkCb [] false 0 false; arg0 := CbPlain;
     poll := fun o w a => Some (cb_poll o w a);
     oper := fun o op => let '(o', wk) := cb_oper o op in Some (o', wk, 0%Z) |}.

(* the source is ready, or the socket was closed *)
Definition cb_cond (o : cbobj) (_ : cb_arg) : Prop := cb_closed o = true \/ (0 < cb_ready o)%N.
(* what a poll observes on its own: a throttled inner poll does not look at readiness *)
Definition cb_cond_obs (o : cbobj) (a : cb_arg) : Prop :=
  match a with CbThrottled => cb_closed o = true | _ => cb_cond o a end.

Definition cb_dec (t : N) (args : list Z) : option (lbl combine_proto) :=
  match t, args with
  | 0%N, [w; 0%Z] => Some (@LPoll combine_proto (Z.to_nat w) CbPlain)
  | 0%N, [w; 1%Z] => Some (@LPoll combine_proto (Z.to_nat w) CbThrottled)
  | 0%N, [w; 2%Z] => Some (@LPoll combine_proto (Z.to_nat w) CbRace)
  | 0%N, [w; 3%Z] => Some (@LPoll combine_proto (Z.to_nat w) CbRaceClose)
  | 1%N, [0%Z] => Some (@LOp combine_proto CbArrive)
  | 1%N, [1%Z] => Some (@LOp combine_proto CbSpurious)
  | 2%N, [] => Some (@LOp combine_proto CbClose)
  | 3%N, [w] => Some (LDrop (Z.to_nat w))
  | _, _ => None
  end.

(* ==================================================================================== *)
(* stream entry point: cfg = [protocol id].  For a protocol with a recorded defect the model
   of the code AS IT IS is compared while the finding is open, the model of the REPAIRED code
   once known_findings.json records it as fixed: coq/Generated/C16Variant.v (f1_fixed, ...) is
   regenerated from that file by tools/props/C16.py on every run.                        *)

Definition run_wakers (cfg : list Z) (ops : list (N * list Z)) : list (list Z) :=
  match cfg with
  | 1%Z :: _ => lrun sendwaker_proto (decw sw_dec) (linit _) ops
  | 2%Z :: _ => lrun asyncdeque_proto (decw ad_dec) (linit _) ops
  | 3%Z :: _ =>
      if f1_fixed then lrun receiving_fixed_proto (decw (rc_dec receiving_fixed_proto (fun x => x))) (linit _) ops
      else lrun receiving_proto (decw (rc_dec receiving_proto (fun x => x))) (linit _) ops
  | 4%Z :: _ => lrun wakervec_proto (decw wv_dec) (linit _) ops
  | 5%Z :: _ => lrun params_proto (decw pm_dec) (linit _) ops
  | 6%Z :: _ => brun cc_t cc_method cc_init ops
  | 7%Z :: _ => lrun keys_proto (decw ky_dec) (linit _) ops
  | 8%Z :: m0 :: _ =>
      if f23_fixed then lrun (sid_fixed_proto (Z.to_N m0)) (decw (sd_dec (sid_fixed_proto (Z.to_N m0)) (fun x => x))) (linit _) ops
      else lrun (sid_proto (Z.to_N m0)) (decw (sd_dec (sid_proto (Z.to_N m0)) (fun x => x))) (linit _) ops
  | 9%Z :: _ => lrun (sender_proto 16) (decw (sn_dec 16)) (linit _) ops
  | 10%Z :: _ => lrun recver_proto (decw rv_dec) (linit _) ops
  | 11%Z :: _ =>
      if f24_fixed then lrun crypto_send_fixed_proto (decw (cs_dec crypto_send_fixed_proto (fun x => x) (fun x => x))) (linit _) ops
      else lrun crypto_send_proto (decw (cs_dec crypto_send_proto (fun x => x) (fun x => x))) (linit _) ops
  | 12%Z :: _ => lrun crypto_recv_proto (decw cr_dec) (linit _) ops
  | 13%Z :: _ => lrun datagram_proto (decw dg_dec) (linit _) ops
  | 14%Z :: _ => brun aa_t aa_method aa_init ops
  | 15%Z :: _ => brun sb_t (sb_method f36_fixed) sb_init ops
  | 16%Z :: _ => lrun asyncdeque_proto (decw rb_dec) (linit _) ops     (* RecvBuffer = AsyncDeque *)
  | 17%Z :: _ => lrun combine_proto (decw cb_dec) (linit _) ops
  | _ => []
  end.
