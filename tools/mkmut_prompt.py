#!/usr/bin/env python3
"""mkmut_prompt.py <name> <Cxx>: writes /tmp/mut_<name>/prompt.txt, the whole brief of a seeded-change sub-agent
(it sees the property text and its scratch worktree only, nothing from /verif)"""
import json, sys
T = '''You are testing a verification effort by planting a realistic defect. You work ONLY in the scratch git worktree /tmp/mut_{n}/repo (a checkout of the Rust QUIC stack genmeta/gm-quic, "dquic"; workspace crates qbase, qrecovery, qcongestion, qconnection, qdatagram, qevent, qinterface, dquic, …). Do not look at or touch anything under /verif or /repo; write your results under /tmp/mut_{n}/out. The sandbox has no network: use `--offline` with cargo, and `export CARGO_TARGET_DIR=/tmp/mut_{n}/target` so that your builds stay in your own directory. Ignore code guarded by `#[cfg(gmquic_verif)]` (test hooks) — do not change or rely on it.

The property the codebase is supposed to satisfy:
  {id} — {title}
  Statement: {statement}
  It must hold: {quant}

YOUR JOB: produce up to THREE independent changes to the source (each a separate small patch against the unmodified worktree) such that each change
  (a) still compiles and still passes the existing test suite (at least `cargo test -p <every crate you touched and its direct dependants> --offline`; the full suite is `cargo nextest run --workspace --no-fail-fast --offline` if you have time),
  (b) BREAKS the property above, and
  (c) needs something specific to manifest — a particular interleaving, a multi-step sequence of operations, an unusual input or boundary value, or two cooperating sites that each look fine alone — NOT something ordinary use (or the existing tests) would expose at once. Make them look like plausible maintenance edits (an off-by-one in a rarely taken branch, a dropped update on one path, a "simplification" that is wrong for one case), different in kind from one another.
For EACH change provide a demonstration: a small Rust test or program (put it in a new file, e.g. a `tests/*.rs` integration test of the crate or a scratch binary crate under /tmp/mut_{n}/out/demoK with a path dependency on /tmp/mut_{n}/repo/<crate>) that FAILS with the change applied and PASSES on the unmodified worktree. Actually run it both ways and record the outputs.

Write, for K = 1..3:
  /tmp/mut_{n}/out/changeK.diff      (`git diff` of the source change only, applicable with `git apply` to the unmodified worktree; do NOT include the demo in it)
  /tmp/mut_{n}/out/demoK/…           (the demonstration, with a README line saying exactly how to run it)
  /tmp/mut_{n}/out/changeK.md        (which clause of the property it breaks, what it needs in order to manifest, what you ran and what you observed with/without the change, and which existing tests you ran to confirm they still pass)
Leave the worktree clean (`git checkout -- .`, remove untracked files) and delete /tmp/mut_{n}/target when you finish. Your final message: a short table of the changes (file/line, what breaks, what it needs to manifest, demo command, test-suite result).'''
n, i = sys.argv[1], sys.argv[2]
props = {json.loads(l)['id']: json.loads(l) for l in open('/verif/properties.jsonl')}
p = props[i]
open('/tmp/mut_%s/prompt.txt' % n, 'w').write(T.format(n=n, id=i, title=p['title'], statement=p['statement'], quant=p['quantifier']['text']))
