// shared helpers for this harness crate (intentionally empty)
