(* Admission proofs (property C05: "a frame that was admitted into a packet by size always fits"). *)
From Coq Require Import List ZArith NArith Bool Lia.
From GQ Require Import Lib.Wire Model.Varint Model.Frames Model.Admission Proofs.Wire Proofs.Frames.
Import ListNotations.
Local Open Scope Z_scope.

(* a frame admitted by Package::dump occupies no more than the remaining space (header part; the
   data-bearing kinds are admitted through the strategy lemmas below) *)
Lemma p_c05_admission f remaining : wf_frame f -> admitted remaining f = true -> encoding_size f <= remaining.
Proof.
  intros Hwf H. unfold admitted in H. apply orb_true_iff in H. pose proof (p_c05_max f Hwf).
  destruct H as [H|H]; apply Z.leb_le in H; lia.
Qed.

Lemma p_c05_admission_plain f remaining : wf_frame f -> admitted remaining f = true ->
  match f with Crypto _ _ | Stream _ _ _ _ _ | Datagram _ _ => True | _ => zlen (put_frame f) <= remaining end.
Proof.
  intros Hwf H. pose proof (p_c05_admission _ _ Hwf H) as Ha. pose proof (p_c05_size _ Hwf) as Hs.
  unfold wire_size in Hs. destruct f; try exact I; lia.
Qed.

(* STREAM: with the capacity handed to the pick predicate and the strategy chosen afterwards, the
   padding plus the frame fit the original remaining space; the assert cannot fire; the inner
   admission test of dump passes; without a length field the frame fills the packet exactly *)
Lemma p_c05_stream_admission capacity sid off len cap_data :
  varint_ok sid -> varint_ok off -> 0 <= len ->
  stream_estimate capacity sid off = Some cap_data -> len <= cap_data ->
  exists explicit pad, encoding_strategy capacity sid off len = Some (explicit, pad) /\
    0 <= pad /\
    stream_written sid off len explicit pad <= capacity /\
    (explicit = false -> stream_written sid off len explicit pad = capacity) /\
    (* dump's own test after the padding was written *)
    (STREAM_FRAME_MAX_ENCODING_SIZE <= capacity - pad \/
     stream_least sid off + (if explicit then varint_size len else 0) <= capacity - pad).
Proof.
  intros Hs Ho Hl He Hc. unfold stream_estimate in He.
  destruct (Z.leb_spec capacity (stream_least sid off)) as [|Hgt]; [discriminate|]. injection He as <-.
  unfold encoding_strategy, stream_written, STREAM_FRAME_MAX_ENCODING_SIZE.
  destruct (Z.ltb_spec capacity (stream_least sid off + len)) as [Hlt|Hge]; [lia|].
  pose proof (varint_size_pos len) as Hv.
  destruct (Z.leb_spec (varint_size len) (capacity - (stream_least sid off + len))) as [H1|H1].
  - destruct (Z.ltb_spec (capacity - (stream_least sid off + len) - varint_size len) 25) as [H2|H2].
    + eexists true, _. split; [reflexivity|]. repeat split; try lia; try discriminate.
    + eexists true, 0. split; [reflexivity|]. repeat split; try lia; try discriminate.
  - eexists false, _. split; [reflexivity|]. repeat split; try lia.
Qed.

(* CRYPTO: the estimate is the largest data length whose frame fits the capacity *)
Lemma vs_small n : 0 <= n <= 63 -> varint_size n = 1.
Proof. intro H. unfold varint_size. destruct (Z.ltb_spec n (2^6)); lia. Qed.
Lemma vs_mid n : 64 <= n <= 16383 -> varint_size n = 2.
Proof. intro H. unfold varint_size. destruct (Z.ltb_spec n (2^6)); [lia|]. destruct (Z.ltb_spec n (2^14)); lia. Qed.
Lemma vs_big n : 16384 <= n <= 1073741823 -> varint_size n = 4.
Proof.
  intro H. unfold varint_size. destruct (Z.ltb_spec n (2^6)); [lia|]. destruct (Z.ltb_spec n (2^14)); [lia|].
  destruct (Z.ltb_spec n (2^30)); lia.
Qed.

Lemma p_c05_crypto_estimate capacity off n : 0 <= capacity ->
  crypto_estimate capacity off = Some (Some n) ->
  0 < n /\ 1 + varint_size off + varint_size n + n <= capacity /\
  (capacity < 1 + varint_size off + varint_size (n + 1) + (n + 1)).
Proof.
  intros Hc H. unfold crypto_estimate in H. pose proof (varint_size_pos off) as Ho.
  destruct (Z.ltb_spec capacity (1 + varint_size off + 2)) as [|Hge]; [discriminate|].
  set (r := capacity - (1 + varint_size off + 2)) in *.
  assert (Hr : r = capacity - (1 + varint_size off + 2)) by reflexivity. clearbody r.
  destruct (Z.leb_spec r 62) as [H1|H1].
  { injection H as <-. rewrite (vs_small (r + 1)) by lia.
    destruct (Z.eq_dec r 62) as [->|NE].
    - rewrite (vs_mid (62 + 1 + 1)) by lia. lia.
    - rewrite (vs_small (r + 1 + 1)) by lia. lia. }
  destruct (Z.leb_spec r 16383) as [H2|H2].
  { injection H as <-. destruct (Z.eq_dec r 63) as [->|NE].
    - rewrite (vs_small 63) by lia. rewrite (vs_mid (63 + 1)) by lia. lia.
    - rewrite (vs_mid r) by lia. destruct (Z.eq_dec r 16383) as [->|NE2].
      + rewrite (vs_big (16383 + 1)) by lia. lia.
      + rewrite (vs_mid (r + 1)) by lia. lia. }
  destruct (Z.leb_spec r 16385) as [H3|H3].
  { injection H as <-. rewrite (vs_mid 16383) by lia. rewrite (vs_big (16383 + 1)) by lia. lia. }
  destruct (Z.leb_spec r 1073741825) as [H4|H4]; [|discriminate].
  injection H as <-. rewrite (vs_big (r - 2)) by lia.
  destruct (Z.eq_dec r 1073741825) as [->|NE].
  - assert (E : varint_size (1073741825 - 2 + 1) = 8).
    { unfold varint_size. vm_compute. reflexivity. }
    rewrite E. lia.
  - rewrite (vs_big (r - 2 + 1)) by lia. lia.
Qed.

(* the unreachable! arm needs a capacity above 2^30 *)
Lemma p_c05_crypto_estimate_total capacity off : 0 <= capacity <= 2 ^ 30 -> crypto_estimate capacity off <> None.
Proof.
  intros Hc. unfold crypto_estimate. pose proof (varint_size_pos off).
  destruct (capacity <? 1 + varint_size off + 2); [discriminate|].
  destruct (_ <=? 62); [discriminate|]. destruct (_ <=? 16383); [discriminate|].
  destruct (_ <=? 16385); [discriminate|].
  destruct (Z.leb_spec (capacity - (1 + varint_size off + 2)) 1073741825); [discriminate|lia].
Qed.
