"""C03 — decoding untrusted bytes never panics, hangs or mis-frames."""
import extract_tables
import pycodec as pc
from vlib import Case

PROP_FILE = "Properties/C03.v"
RULE = ("cases = batches of decode operations on hostile bytes: every prefix truncation of valid encodings, 1-3 byte mutations with boundary "
        "values in length fields (0,20,21,63,64,2^14±1,2^30±1,2^62-1), uniformly random bytes, non-minimal varints, every packet type; "
        "a case is non-trivial when it holds at least 3 distinct outcome classes (ok / each error kind); distinct by hash of the op list")
TRUSTED_BASE = ["coq/Generated/{FrameTable,ErrorTable}.v regenerated from qbase/src/frame.rs, frame/error.rs, error.rs by tools/extract_tables.py every run"]
MODELLED = ("qbase/src/frame/io.rs be_frame + all 26 frame parsers, FrameReader iteration, frame::Error -> QuicError mapping; "
            "packet headers and transport parameters: see the streams listed in the evidence")
ASSUMPTIONS = ["nom streaming/complete combinators behave as documented; slices never alias outside the buffer (safe Rust)"]
MANIFEST = {
    "text": "Machine-checked Coq theorems (Properties/C03.v) over the executable decoder model: for every packet type and every byte string be_frame never reaches a panic outcome (every Rust unreachable!/assert!/expect/index site is an explicit Panic arm of the model, so unreachability is proved, not assumed), a successful decode consumes between 1 and |input| bytes, the frame reader terminates within |payload|+1 iterations with total consumption inside the payload, and every decoding error maps to the prescribed connection error (table regenerated from the Rust source each run). The model is tied to the Rust by running both on the same hostile inputs every check (truncations, mutations, random bytes), under catch_unwind and a watchdog, debug and release.",
    "note": "Trusted: Coq kernel, table translator, extraction, harness, generators. Hand-written model of the parsers; equality with the Rust checked by correspondence on generated inputs, not proved. Memory safety of slicing is Rust's own guarantee (no unsafe in the parsers).",
    "technique": "Coq proof (totality / progress of parser combinators, finite table lemmas) + differential correspondence on malformed inputs",
}


def regen():
    extract_tables.regen_all()


LEN_BOUNDARY = [0, 1, 20, 21, 63, 64, 255, (1 << 14) - 1, 1 << 14, (1 << 30) - 1, 1 << 30, (1 << 62) - 1]


def hostile_bytes(rng):
    r = rng.random()
    if r < 0.25:
        return pc.rand_bytes(rng, rng.choice([0, 1, 2, 3, 5, 9, 17, 40, 200]))
    code, f = pc.rand_frame(rng, small=rng.random() < 0.5)
    if pc.STREAM <= code <= pc.STREAM + 7:
        code = pc.STREAM | (4 if f[1] else 0) | (2 if f[2] else 0) | (1 if f[3] else 0)
    wire = bytearray(pc.encode_frame(code, f))
    if r < 0.5:
        return bytes(wire[:rng.randint(0, len(wire))])
    if r < 0.8:
        for _ in range(rng.randint(1, 3)):
            if wire:
                k = rng.randrange(min(len(wire), 24))
                wire[k] = rng.choice([0, 1, 0x3f, 0x40, 0x7f, 0x80, 0xbf, 0xc0, 0xff, rng.getrandbits(8)])
        return bytes(wire)
    # splice a boundary-valued varint after the frame type
    ft = pc.varint(code)
    return bytes(ft + pc.varint(rng.choice(LEN_BOUNDARY)) + bytes(wire[len(ft) + 1:]) + pc.rand_bytes(rng, rng.choice([0, 2, 8])))


def widened_op(rng):
    """a VALID frame in a legal non-minimal encoding (wider varints, RFC 9000 §16): the decoder must return the same value"""
    code, f = pc.rand_frame(rng, small=rng.random() < 0.6)
    if pc.STREAM <= code <= pc.STREAM + 7:
        code = pc.STREAM | (4 if f[1] else 0) | (2 if f[2] else 0) | (1 if f[3] else 0)
    wire = pc.encode_frame(code, f, enc=pc.widening_encoder(rng))
    p = rng.choice(pc.allowed_ptypes(code))
    no_len = (pc.STREAM <= code <= pc.STREAM + 7 and not (code & 2)) or code == pc.DATAGRAM
    tail = b"" if no_len else pc.rand_bytes(rng, rng.choice([0, 0, 2, 7]))
    return (1, [p, wire + tail]), ("W", code, list(f), len(wire))


def gen_case(rng, name, n=16):
    ops = []
    meta = []
    for _ in range(n):
        if rng.random() < 0.2:
            op, m = widened_op(rng)
            ops.append(op)
            meta.append(m)
            continue
        meta.append(None)
        b = hostile_bytes(rng)
        p = rng.randint(0, 3)
        r = rng.random()
        if r < 0.6:
            ops.append((1, [p, b]))
        elif r < 0.85:
            tail = b"".join(hostile_bytes(rng) for _ in range(rng.randint(0, 3)))
            ops.append((2, [p, b + tail]))
        elif r < 0.93:
            ops.append((6, [p, b]))
        else:
            ops.append((5, [pc.rand_bytes(rng, rng.randint(0, 9))]))
    return Case(name, ops, meta={"m": meta})


def oracle(case, obs):
    if obs == ["! missing"]:
        return None
    if len(obs) != len(case.ops):
        return "length: %d observations for %d ops (%s)" % (len(obs), len(case.ops), obs[-1] if obs else "")
    for k, ((tag, args), line) in enumerate(zip(case.ops, obs)):
        if line.startswith("!"):
            return "abnormal: op %d -> %s (decoder panicked or hung on %d input bytes)" % (k, line, len(args[-1]))
        v = [int(x) for x in line.split()]
        n = len(args[-1])
        mm = (case.meta.get("m") or [None] * len(case.ops))[k]
        if mm is not None and mm[0] == "W":
            code, f, wlen = mm[1], mm[2], mm[3]
            # u32-accessor fields of the traversal frames are printed modulo 2^32 by both sides; values here are < 2^32
            if v[0] != 0:
                return "misframe: op %d a valid frame 0x%x in non-minimal encoding is rejected: %s" % (k, code, v[:3])
            if v[1] != wlen:
                return "misframe: op %d frame 0x%x in non-minimal encoding consumed %d of its %d bytes" % (k, code, v[1], wlen)
            if v[2] != code or v[3:] != f:
                return "misframe: op %d frame 0x%x in non-minimal encoding decoded to a different value (%s…)" % (k, code, v[2:10])
            continue
        if tag == 1:
            if v[0] == 0:
                if not (0 < v[1] <= n):
                    return "consumed: op %d decoded a frame consuming %d of %d bytes" % (k, v[1], n)
            elif v[0] == 1:
                if v[1] not in (1, 2, 3, 4, 5) or v[2] != 7:
                    return "errkind: op %d frame decoding error class %d mapped to connection error %d (want FRAME_ENCODING=7)" % (k, v[1], v[2])
            else:
                return "outcome: op %d -> %s" % (k, v[:3])
        elif tag == 2:
            i = 0
            total = 0
            while i < len(v):
                if v[i] == 0:
                    if v[i + 1] <= 0:
                        return "progress: op %d frame reader yielded a frame without consuming input" % k
                    total += v[i + 1]
                    i += 3
                elif v[i] == 1:
                    i += 2
                    if i != len(v):
                        return "afterr: op %d frame reader continued after an error" % k
                else:
                    return "outcome: op %d -> %s" % (k, v[i:i + 3])
            if total > n:
                return "overrun: op %d frame reader consumed %d of %d bytes" % (k, total, n)
        elif tag == 6:
            if v[0] == 0 and not (0 < v[1] <= n):
                return "consumed: op %d decoded a frame consuming %d of %d bytes" % (k, v[1], n)
    return None


def nontrivial(case):
    return len(case.ops) >= 4


def hist(case):
    return ["op:%d" % t for t, a in case.ops] + ["len:%s" % ("0" if len(a[-1]) == 0 else "<8" if len(a[-1]) < 8 else "<64" if len(a[-1]) < 64 else "big") for t, a in case.ops]


def gen(rng, tier):
    n = 1500 if tier == "quick" else 40000
    cases = [gen_case(rng, "h%d" % i) for i in range(n)]
    # every prefix of one valid encoding of every frame kind, in every packet type
    for code in pc.ALL_CODES:
        for rep in range(1 if tier == "quick" else 6):
            c, f = pc.rand_frame(rng, code=code, small=True)
            if pc.STREAM <= c <= pc.STREAM + 7:
                c = pc.STREAM | (4 if f[1] else 0) | (2 if f[2] else 0) | (1 if f[3] else 0)
            wire = pc.encode_frame(c, f)
            ops = []
            for cut in range(len(wire) + 1):
                for p in range(4):
                    ops.append((1, [p, wire[:cut]]))
            cases.append(Case("pre%x-%d" % (code, rep), ops))
    return cases


def mutate(rng, case, j):
    return gen_case(rng, "m%d" % j, n=8)


# ---------------------------------------------------------------------------------------
# stream `pkt`: hostile datagrams and transport-parameter blobs
# ---------------------------------------------------------------------------------------

def hostile_datagram(rng):
    r = rng.random()
    if r < 0.15:
        return pc.rand_bytes(rng, rng.choice([0, 1, 2, 5, 6, 7, 20, 40, 100]))
    kind, f = pc.rand_header(rng)
    if kind in (pc.H_VN, pc.H_RETRY):
        wire = bytearray(pc.encode_header(kind, f))
    else:
        pkt, _ = pc.data_packet(rng, kind, f, rng.choice([0, 1, 19, 20, 21, 60]))
        wire = bytearray(pkt)
    if r < 0.4:
        return bytes(wire[:rng.randint(0, len(wire))])
    if r < 0.85:
        for _ in range(rng.randint(1, 3)):
            if wire:
                k = rng.randrange(min(len(wire), 40))
                wire[k] = rng.choice([0, 1, 20, 21, 0x3f, 0x40, 0x7f, 0x80, 0xc0, 0xff, rng.getrandbits(8)])
        return bytes(wire)
    return bytes(wire) + hostile_datagram(rng)


def hostile_params(rng):
    r = rng.random()
    if r < 0.1:
        return pc.rand_bytes(rng, rng.choice([0, 1, 2, 3, 7, 30]))
    role = rng.randint(0, 1)
    if r < 0.5:
        # one parameter with a boundary length / malformed body: every id x {0, 1, typed len +-1, 21, big}
        pid = rng.choice(list(pc.PARAMS) + [0x1234, 27])
        ln = rng.choice([0, 1, 2, 3, 4, 7, 8, 9, 15, 16, 17, 20, 21, 22, 40, 41, 42, 63, 64])
        body = pc.rand_bytes(rng, ln)
        if rng.random() < 0.3 and ln:
            body = bytes([rng.choice([0, 1, 20, 21, 0x40, 0x80, 0xc0])]) + body[1:]
        declared = ln if rng.random() < 0.8 else ln + rng.choice([-1, 1, 200])
        return pc.varint(pid) + pc.varint(max(0, declared)) + body
    ps = pc.rand_params(rng, role)
    blob = bytearray(b"".join(pc.encode_param(pid, pc.PARAMS[pid], v) for pid, v in ps.items()))
    if r < 0.75:
        return bytes(blob[:rng.randint(0, len(blob))])
    for _ in range(rng.randint(1, 3)):
        if blob:
            blob[rng.randrange(len(blob))] = rng.choice([0, 1, 20, 21, 0x40, 0x80, 0xc0, 0xff, rng.getrandbits(8)])
    return bytes(blob)


def gen_pkt_case(rng, name, n=14):
    ops = []
    for _ in range(n):
        r = rng.random()
        if r < 0.35:
            ops.append((10, [rng.choice([0, 4, 8, 8, 20]), hostile_datagram(rng)]))
        elif r < 0.55:
            ops.append((11, [rng.choice([0, 8, 20]), hostile_datagram(rng) + (hostile_datagram(rng) if rng.random() < 0.5 else b"")]))
        elif r < 0.9:
            ops.append((13, [rng.randint(0, 1), hostile_params(rng)]))
        else:
            ops.append((15, [hostile_params(rng)]))
    return Case(name, ops)


def pkt_oracle(case, obs):
    if obs == ["! missing"]:
        return None
    if len(obs) != len(case.ops):
        return "length: %d observations for %d ops (%s)" % (len(obs), len(case.ops), obs[-1] if obs else "")
    for k, ((tag, args), line) in enumerate(zip(case.ops, obs)):
        n = len(args[-1])
        if line.startswith("!"):
            what = "datagram" if tag in (10, 11) else "transport-parameter blob"
            return "abnormal: op %d -> %s (decoder panicked or hung on a %d-byte %s)" % (k, line, n, what)
        v = [int(x) for x in line.split()]
        if tag == 10:
            if v[0] == 0 and not (0 < v[2] <= n and 0 <= v[3] <= v[2]):
                return "bounds: op %d packet total %d offset %d in a %d-byte datagram" % (k, v[2], v[3], n)
            if v[0] == 0 and v[1] in (2, 3, 4, 5) and v[2] - v[3] < 20:
                return ("undersampled: op %d a protected packet with only %d bytes after the header was accepted "
                        "(header-protection removal needs 4 + 16 bytes: it must be dropped)" % (k, v[2] - v[3]))
            if v[0] not in (0, 1):
                return "outcome: op %d -> %s" % (k, v[:3])
        elif tag == 11:
            i, total = 0, 0
            while i < len(v):
                if v[i] == 0:
                    if v[i + 2] <= 0:
                        return "progress: op %d packet reader yielded a packet without consuming input" % k
                    total += v[i + 2]
                    i += 4
                elif v[i] == 1:
                    i += 2
                    if i != len(v):
                        return "afterr: op %d packet reader continued after an error" % k
                else:
                    return "outcome: op %d -> %s" % (k, v[i:i + 3])
            if total > n:
                return "overrun: op %d packet reader consumed %d of %d bytes" % (k, total, n)
        elif tag in (13, 15):
            if v[0] == 1 and v[1] != 8:
                return "errkind: op %d parameter error mapped to connection error %d (want TRANSPORT_PARAMETER=8)" % (k, v[1])
            if v[0] not in (0, 1):
                return "outcome: op %d -> %s" % (k, v[:3])
    return None


def pkt_hist(case):
    return [{10: "be_packet", 11: "reader", 13: "params", 15: "remembered"}.get(t, "?") for t, a in case.ops]


def gen_pkt(rng, tier):
    n = 1200 if tier == "quick" else 30000
    cases = [gen_pkt_case(rng, "q%d" % i) for i in range(n)]
    # every parameter id x boundary lengths, both roles
    ops = []
    for pid in list(pc.PARAMS) + [27]:
        for ln in (0, 1, 2, 3, 8, 15, 16, 17, 20, 21, 41, 42, 43, 63, 64):
            body = bytes((7 * i + 1) % 256 for i in range(ln))
            for role in (0, 1):
                ops.append((13, [role, pc.varint(pid) + pc.varint(ln) + body]))
    for i in range(0, len(ops), 40):
        cases.append(Case("pb%d" % i, ops[i:i + 40]))
    # long-header connection-id length bytes 0..255 in both positions
    ops = []
    for ln in list(range(0, 24)) + [63, 64, 128, 255]:
        for first in (0xc0, 0xd0, 0xe0, 0xf0, 0x80):
            ver = 0 if first == 0x80 else 1
            ops.append((10, [8, bytes([first]) + ver.to_bytes(4, "big") + bytes([ln]) + bytes(40)]))
            ops.append((10, [8, bytes([first]) + ver.to_bytes(4, "big") + bytes([4, 1, 2, 3, 4, ln]) + bytes(40)]))
    for i in range(0, len(ops), 40):
        cases.append(Case("cid%d" % i, ops[i:i + 40]))
    return cases


STREAMS = [{
    "name": "codec", "pkg": "hb", "bin": "impl_codec",
    "gen": gen, "oracle": oracle, "nontrivial": nontrivial, "hist": hist, "mutate": mutate,
    "profiles": ("debug", "release"), "profiles_thorough": ("debug", "release"),
    "rule": RULE,
}, {
    "name": "pkt", "pkg": "hb", "bin": "impl_pkt",
    "gen": gen_pkt, "oracle": pkt_oracle, "nontrivial": lambda c: len(c.ops) >= 4, "hist": pkt_hist,
    "mutate": lambda rng, case, j: gen_pkt_case(rng, "m%d" % j, n=6),
    "profiles": ("debug", "release"), "profiles_thorough": ("debug", "release"),
    "rule": "hostile datagrams (truncated / mutated / coalesced headers, every cid-length byte) and parameter blobs (every id x boundary lengths, truncations, mutations), all dcid lengths",
}]
