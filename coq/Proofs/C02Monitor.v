(* C02 — soundness of the history monitor (Model/C02Monitor.v): if the monitor accepts a history
   then the safety predicates of the property hold of that history.  The predicates are stated
   with the specification functions below (plain filters over the event list), independently of
   the monitor's incremental state. *)
From Coq Require Import List NArith ZArith Bool Lia Permutation.
From GQ Require Import Lib.Base Model.C02Monitor.
Import ListNotations.
Local Open Scope N_scope.

(* ------------------------------------------------------------------ specification functions *)
Fixpoint writes (h : list ev) (w sid : N) : list Z :=
  match h with
  | [] => []
  | AppWrite w' sid' bs :: t => if (w' =? w) && (sid' =? sid) then bs ++ writes t w sid else writes t w sid
  | _ :: t => writes t w sid
  end.
Fixpoint reads (h : list ev) (r sid : N) : list Z :=
  match h with
  | [] => []
  | AppRead r' sid' bs :: t => if (r' =? r) && (sid' =? sid) then bs ++ reads t r sid else reads t r sid
  | _ :: t => reads t r sid
  end.
Fixpoint shutdown_in (h : list ev) (w sid : N) : bool :=
  match h with
  | [] => false
  | AppShutdown w' sid' :: t => ((w' =? w) && (sid' =? sid)) || shutdown_in t w sid
  | _ :: t => shutdown_in t w sid
  end.
Fixpoint eos_in (h : list ev) (r sid : N) : bool :=
  match h with
  | [] => false
  | AppEos r' sid' :: t => ((r' =? r) && (sid' =? sid)) || eos_in t r sid
  | _ :: t => eos_in t r sid
  end.
Fixpoint dsent (h : list ev) (s : N) : list (list Z) :=
  match h with
  | [] => []
  | DgramSend s' bs :: t => if s' =? s then bs :: dsent t s else dsent t s
  | _ :: t => dsent t s
  end.
Fixpoint drecv (h : list ev) (r : N) : list (list Z) :=
  match h with
  | [] => []
  | DgramRecv r' bs :: t => if r' =? r then bs :: drecv t r else drecv t r
  | _ :: t => drecv t r
  end.
(* time at which the application of side s is first told that the connection ended *)
Fixpoint first_err (h : list ev) (s : N) : option N :=
  match h with
  | [] => None
  | ConnError s' _ t :: r => if s' =? s then Some t else first_err r s
  | _ :: r => first_err r s
  end.

(* ------------------------------------------------------------------ the generic runner *)
Fixpoint exec {S : Type} (step : S -> ev -> option S) (s : S) (h : list ev) : option S :=
  match h with
  | [] => Some s
  | e :: r => match step s e with Some s' => exec step s' r | None => None end
  end.

Lemma run_exec : forall S (step : S -> ev -> option S) h s i,
  exec step s h = match run step s h i with inl s' => Some s' | inr _ => None end.
Proof.
  induction h as [|e r IH]; intros s i; cbn [exec run]; [reflexivity|].
  destruct (step s e); [apply IH|reflexivity].
Qed.

Lemma accepted_exec : forall S (step : S -> ev -> option S) h s i,
  accepted (run step s h i) = true -> exists s', exec step s h = Some s' /\ run step s h i = inl s'.
Proof.
  intros S step h s i H. rewrite (run_exec S step h s i).
  destruct (run step s h i); cbn in H; [eauto|discriminate].
Qed.

Lemma exec_app : forall S (step : S -> ev -> option S) h1 h2 s s2,
  exec step s (h1 ++ h2) = Some s2 -> exists s1, exec step s h1 = Some s1 /\ exec step s1 h2 = Some s2.
Proof.
  induction h1 as [|e r IH]; intros h2 s s2 H; cbn [app exec] in *; [eauto|].
  destruct (step s e); [apply IH; exact H|discriminate].
Qed.

(* ------------------------------------------------------------------ 1. streams *)
Lemma strip_prefix_spec : forall bs l rest, strip_prefix bs l = Some rest -> l = bs ++ rest.
Proof.
  induction bs as [|b bs IH]; intros l rest H; cbn in *; [congruence|].
  destruct l as [|x l]; [discriminate|].
  destruct (Z.eqb_spec b x); [|discriminate]. subst. f_equal. apply IH; exact H.
Qed.

Definition wf_ss (s : sstate) : Prop := eos s = true -> pend s = [] /\ shut s = true.

Lemma stream_exec_inv : forall r sid h s s',
  exec (stream_step r sid) s h = Some s' -> wf_ss s ->
  pend s ++ writes h (other r) sid = reads h r sid ++ pend s'
  /\ wf_ss s'
  /\ shut s' = shut s || shutdown_in h (other r) sid
  /\ eos s' = eos s || eos_in h r sid
  /\ (shut s = true -> writes h (other r) sid = []).
Proof.
  intros r sid. induction h as [|e t IH]; intros s s' H W.
  - cbn in H. inversion H; subst. cbn. rewrite app_nil_r, !orb_false_r. auto.
  - cbn [exec] in H. destruct (stream_step r sid s e) as [s1|] eqn:E; [|discriminate].
    destruct e; cbn [stream_step] in E;
      try (inversion E; subst s1; cbn [writes reads shutdown_in eos_in]; apply IH; assumption).
    + (* AppWrite *)
      cbn [writes reads shutdown_in eos_in].
      destruct ((side =? other r) && (sid0 =? sid)) eqn:K.
      * destruct (shut s) eqn:Sh; [discriminate|]. inversion E; subst s1; clear E.
        assert (W1 : wf_ss (mkss (pend s ++ bs) false (eos s))).
        { intro He. cbn in He. destruct (W He) as [_ Hs]. congruence. }
        destruct (IH _ _ H W1) as (A & B & C & D & F). cbn [pend shut eos] in *.
        split; [rewrite app_assoc; exact A|].
        split; [exact B|]. split; [rewrite C; reflexivity|]. split; [exact D|].
        intro; discriminate.
      * inversion E; subst s1. apply IH; assumption.
    + (* AppShutdown *)
      cbn [writes reads shutdown_in eos_in].
      destruct ((side =? other r) && (sid0 =? sid)) eqn:K.
      * inversion E; subst s1; clear E.
        assert (W1 : wf_ss (mkss (pend s) true (eos s))).
        { intro He. cbn in He. destruct (W He) as [Hp _]. cbn. auto. }
        destruct (IH _ _ H W1) as (A & B & C & D & F). cbn [pend shut eos] in *.
        split; [exact A|]. split; [exact B|].
        split; [rewrite C; cbn; rewrite orb_true_r; reflexivity|]. split; [exact D|].
        intro. apply F. reflexivity.
      * inversion E; subst s1. cbn [orb]. apply IH; assumption.
    + (* AppRead *)
      cbn [writes reads shutdown_in eos_in].
      destruct ((side =? r) && (sid0 =? sid)) eqn:K.
      * destruct (strip_prefix bs (pend s)) as [rest|] eqn:P; [|discriminate].
        inversion E; subst s1; clear E. apply strip_prefix_spec in P.
        assert (W1 : wf_ss (mkss rest (shut s) (eos s))).
        { intro He. cbn in He. destruct (W He) as [Hp Hs]. cbn. rewrite Hp in P.
          destruct bs; [|discriminate]. cbn in P. subst rest. auto. }
        destruct (IH _ _ H W1) as (A & B & C & D & F). cbn [pend shut eos] in *.
        split; [rewrite P, <- !app_assoc; f_equal; exact A|]. auto.
      * inversion E; subst s1. apply IH; assumption.
    + (* AppEos *)
      cbn [writes reads shutdown_in eos_in].
      destruct ((side =? r) && (sid0 =? sid)) eqn:K.
      * destruct (pend s) eqn:P; [|discriminate]. destruct (shut s) eqn:Sh; [|discriminate].
        inversion E; subst s1; clear E.
        assert (W1 : wf_ss (mkss [] true true)) by (intro; cbn; auto).
        destruct (IH _ _ H W1) as (A & B & C & D & F). cbn [pend shut eos] in *.
        split; [exact A|]. split; [exact B|]. split; [rewrite C; reflexivity|].
        split; [rewrite D; cbn; rewrite orb_true_r; reflexivity|]. intro. apply F. reflexivity.
      * inversion E; subst s1. cbn [orb]. apply IH; assumption.
Qed.

Lemma wf_ss0 : wf_ss ss0.
Proof. intro H; discriminate. Qed.

Lemma key_eqb_eq : forall a b, key_eqb a b = true <-> a = b.
Proof.
  intros [a1 a2] [b1 b2]. unfold key_eqb. cbn. rewrite andb_true_iff, !N.eqb_eq.
  split; [intros [-> ->]; reflexivity|intro H; inversion H; auto].
Qed.

Lemma in_dedup : forall l k, In k l -> In k (dedup l).
Proof.
  induction l as [|x t IH]; intros k H; [destruct H|].
  cbn [dedup]. destruct (existsb (key_eqb x) t) eqn:E.
  - destruct H as [->|H]; [|apply IH; exact H].
    apply existsb_exists in E. destruct E as (y & Hy & Ey). apply key_eqb_eq in Ey. subst y. apply IH; exact Hy.
  - destruct H as [->|H]; [left; reflexivity|right; apply IH; exact H].
Qed.

Lemma key_dec : forall a b : N * N, {a = b} + {a <> b}.
Proof. decide equality; apply N.eq_dec. Qed.

Lemma not_in_rkeys : forall h r sid, ~ In (r, sid) (rkeys h) -> reads h r sid = [] /\ eos_in h r sid = false.
Proof.
  induction h as [|e t IH]; intros r sid H; [cbn; auto|].
  destruct e; cbn [rkeys reads eos_in] in *; try (apply IH; exact H).
  - destruct ((side =? r) && (sid0 =? sid)) eqn:K.
    + exfalso. apply H. left. apply andb_true_iff in K. destruct K as [K1 K2].
      apply N.eqb_eq in K1, K2. subst. reflexivity.
    + apply IH. intro; apply H; right; assumption.
  - destruct ((side =? r) && (sid0 =? sid)) eqn:K.
    + exfalso. apply H. left. apply andb_true_iff in K. destruct K as [K1 K2].
      apply N.eqb_eq in K1, K2. subst. reflexivity.
    + cbn. apply IH. intro; apply H; right; assumption.
Qed.

Lemma rkeys_app : forall h1 h2, rkeys (h1 ++ h2) = rkeys h1 ++ rkeys h2.
Proof.
  induction h1 as [|e t IH]; intro h2; [reflexivity|].
  destruct e; cbn [app rkeys]; rewrite ?IH; reflexivity.
Qed.

(* the per-direction statement on a prefix h1 of an accepted history h1 ++ h2 *)
Lemma p_streams_prefix : forall h1 h2 r sid,
  streams_ok (h1 ++ h2) = true ->
  (exists rest, writes h1 (other r) sid = reads h1 r sid ++ rest) /\
  (eos_in h1 r sid = true ->
     reads h1 r sid = writes h1 (other r) sid /\ shutdown_in h1 (other r) sid = true /\
     writes h2 (other r) sid = []).
Proof.
  intros h1 h2 r sid H.
  destruct (in_dec key_dec (r, sid) (rkeys h1)) as [I|I].
  - unfold streams_ok in H. rewrite forallb_forall in H.
    assert (I' : In (r, sid) (dedup (rkeys (h1 ++ h2)))).
    { apply in_dedup. rewrite rkeys_app. apply in_or_app. left. exact I. }
    specialize (H _ I'). unfold stream_run in H. cbn [fst snd] in H.
    apply accepted_exec in H. destruct H as (s2 & H & _).
    apply exec_app in H. destruct H as (s1 & H1 & H2).
    destruct (stream_exec_inv _ _ _ _ _ H1 wf_ss0) as (A & B & C & D & _).
    cbn [pend shut eos ss0] in *. cbn [app] in A.
    split; [exists (pend s1); exact A|].
    intro E. rewrite E in D. cbn in D. destruct (B D) as [Hp Hs].
    rewrite Hp, app_nil_r in A. rewrite Hs in C. cbn in C.
    split; [symmetry; exact A|]. split; [symmetry; exact C|].
    destruct (stream_exec_inv _ _ _ _ _ H2 B) as (_ & _ & _ & _ & F). apply F. exact Hs.
  - destruct (not_in_rkeys _ _ _ I) as [R E]. rewrite R, E. split; [eexists; reflexivity|discriminate].
Qed.

(* ------------------------------------------------------------------ 2. datagrams *)
Lemma bytes_eqb_eq : forall a b, bytes_eqb a b = true -> a = b.
Proof.
  induction a as [|x a IH]; intros [|y b] H; cbn in H; try discriminate; [reflexivity|].
  apply andb_true_iff in H. destruct H as [H1 H2]. apply Z.eqb_eq in H1. subst. f_equal. apply IH; exact H2.
Qed.

Lemma remove1_perm : forall b l l', remove1 b l = Some l' -> Permutation l (b :: l').
Proof.
  intros b. induction l as [|x t IH]; intros l' H; cbn in H; [discriminate|].
  destruct (bytes_eqb b x) eqn:E.
  - apply bytes_eqb_eq in E. inversion H; subst. apply Permutation_refl.
  - destruct (remove1 b t) as [t'|] eqn:R; [|discriminate]. inversion H; subst.
    eapply perm_trans; [apply perm_skip; apply IH; reflexivity|apply perm_swap].
Qed.

Lemma dgram_exec_perm : forall r h out out',
  exec (dgram_step r) out h = Some out' ->
  Permutation (out ++ dsent h (other r)) (drecv h r ++ out').
Proof.
  intros r. induction h as [|e t IH]; intros out out' H.
  - cbn in *. inversion H; subst. rewrite app_nil_r. apply Permutation_refl.
  - cbn [exec] in H. destruct (dgram_step r out e) as [o1|] eqn:E; [|discriminate].
    destruct e; cbn [dgram_step] in E;
      try (inversion E; subst o1; cbn [dsent drecv]; apply IH; assumption).
    + cbn [dsent drecv]. destruct (side =? other r).
      * inversion E; subst o1. specialize (IH _ _ H). rewrite <- app_assoc in IH. exact IH.
      * inversion E; subst o1. apply IH; assumption.
    + cbn [dsent drecv]. destruct (side =? r).
      * apply remove1_perm in E. specialize (IH _ _ H).
        eapply perm_trans; [apply Permutation_app_tail; exact E|].
        cbn. apply perm_skip. exact IH.
      * inversion E; subst o1. apply IH; assumption.
Qed.

Lemma remove1_in : forall b l l', remove1 b l = Some l' -> In b l /\ (forall x, In x l' -> In x l).
Proof.
  intros b l l' H. apply remove1_perm in H. split.
  - eapply Permutation_in; [apply Permutation_sym; exact H|left; reflexivity].
  - intros x Hx. eapply Permutation_in; [apply Permutation_sym; exact H|right; exact Hx].
Qed.

Lemma dgram_exec_in : forall r h out out',
  exec (dgram_step r) out h = Some out' ->
  forall h1 bs h2, h = h1 ++ DgramRecv r bs :: h2 -> In bs (out ++ dsent h1 (other r)).
Proof.
  intros r. induction h as [|e t IH]; intros out out' H h1 bs h2 Hh.
  - destruct h1; discriminate.
  - cbn [exec] in H. destruct (dgram_step r out e) as [o1|] eqn:E; [|discriminate].
    destruct h1 as [|e1 h1].
    + cbn in Hh. inversion Hh; subst. cbn [dgram_step] in E. rewrite N.eqb_refl in E.
      apply remove1_in in E. destruct E as [E _]. cbn [dsent]. rewrite app_nil_r. exact E.
    + cbn in Hh. inversion Hh; subst e1 t. specialize (IH _ _ H _ _ _ eq_refl).
      apply in_app_or in IH.
      destruct e; cbn [dgram_step] in E; cbn [dsent];
        try (inversion E; subst o1; apply in_or_app; exact IH).
      * destruct (side =? other r); inversion E; subst o1.
        -- destruct IH as [IH|IH]; [apply in_app_or in IH; destruct IH as [IH|[IH|[]]]|].
           ++ apply in_or_app; left; exact IH.
           ++ subst. apply in_or_app; right; left; reflexivity.
           ++ apply in_or_app; right; right; exact IH.
        -- apply in_or_app; exact IH.
      * destruct (side =? r).
        -- apply remove1_in in E. destruct IH as [IH|IH]; apply in_or_app; [left; apply E; exact IH|right; exact IH].
        -- inversion E; subst o1. apply in_or_app; exact IH.
Qed.

(* ------------------------------------------------------------------ 5. per-event checks *)
Lemma simple_exec_all : forall h u u', exec simple_step u h = Some u' -> forall e, In e h -> event_ok e = true.
Proof.
  induction h as [|x t IH]; intros u u' H e He; [destruct He|].
  cbn [exec] in H. unfold simple_step in H at 1. destruct (event_ok x) eqn:E; [|discriminate].
  destruct He as [->|He]; [exact E|eapply IH; eauto].
Qed.

Lemma p_simple : forall h, simple_ok h = true -> forall e, In e h -> event_ok e = true.
Proof.
  intros h H. unfold simple_ok, simple_run in H. apply accepted_exec in H.
  destruct H as (u & H & _). eapply simple_exec_all; eauto.
Qed.

(* ------------------------------------------------------------------ 4. nothing after Closed *)
Lemma closed_exec_true : forall s h c', exec (closed_step s) true h = Some c' ->
  forall e, In e h -> data_event_of s e = false.
Proof.
  intros s. induction h as [|x t IH]; intros c' H e He; [destruct He|].
  cbn [exec] in H. destruct (closed_step s true x) as [c1|] eqn:E; [|discriminate].
  assert (c1 = true /\ data_event_of s x = false) as [-> Dx].
  { destruct x; cbn [closed_step andb data_event_of] in E; cbn [data_event_of];
      try (destruct (side =? s); inversion E; auto; fail); try (inversion E; auto; fail). }
  destruct He as [->|He]; [exact Dx|eapply IH; eauto].
Qed.

Lemma closed_exec_after : forall s h c c', exec (closed_step s) c h = Some c' ->
  forall h1 t h2, h = h1 ++ Closed s t :: h2 -> forall e, In e h2 -> data_event_of s e = false.
Proof.
  intros s h c c' H h1 t h2 -> e He.
  apply exec_app in H. destruct H as (c1 & _ & H). cbn [exec closed_step] in H.
  rewrite N.eqb_refl in H. eapply closed_exec_true; eauto.
Qed.

(* ------------------------------------------------------------------ 3. termination *)
Lemma term_exec_inv : forall B s h st st',
  exec (term_step B s) st h = Some st' ->
  (forall te, terr st = Some te -> te <= tclock st) ->
  terr st' = match terr st with Some te => Some te | None => first_err h s end
  /\ tclock st <= tclock st'
  /\ (forall te, terr st' = Some te -> te <= tclock st')
  /\ (terr st = None -> forall te, terr st' = Some te -> tclock st <= te)
  /\ (forall id ts, In (id, ts) (tops st) \/ In (OpPending s id ts) h ->
        In (id, ts) (tops st') \/
        exists res tc, In (OpCompleted s id res tc) h /\ tc <= tclock st' /\
                       (forall te, terr st' = Some te -> tc <= N.max te ts + B)).
Proof.
  intros B s. induction h as [|e t IH]; intros st st' H W.
  - cbn in H. inversion H; subst st'. cbn [first_err].
    split; [destruct (terr st); reflexivity|]. split; [lia|]. split; [exact W|].
    split; [intros E te E'; congruence|]. intros id ts [I|[]]. left; exact I.
  - cbn [exec] in H. destruct (term_step B s st e) as [st1|] eqn:E; [|discriminate].
    assert (Triv : st1 = st -> first_err (e :: t) s = first_err t s ->
                   (forall id ts, In (OpPending s id ts) (e :: t) -> In (OpPending s id ts) t) ->
                   (forall id res tc, In (OpCompleted s id res tc) t -> In (OpCompleted s id res tc) (e :: t)) ->
                   terr st' = match terr st with Some te => Some te | None => first_err (e :: t) s end
                   /\ tclock st <= tclock st'
                   /\ (forall te, terr st' = Some te -> te <= tclock st')
                   /\ (terr st = None -> forall te, terr st' = Some te -> tclock st <= te)
                   /\ (forall id ts, In (id, ts) (tops st) \/ In (OpPending s id ts) (e :: t) ->
                         In (id, ts) (tops st') \/
                         exists res tc, In (OpCompleted s id res tc) (e :: t) /\ tc <= tclock st' /\
                                        (forall te, terr st' = Some te -> tc <= N.max te ts + B))).
    { intros -> Fe Pe Ce. destruct (IH _ _ H W) as (R1 & R2 & R3 & R4 & R5).
      rewrite Fe. split; [exact R1|]. split; [exact R2|]. split; [exact R3|]. split; [exact R4|].
      intros id ts [I|I].
      - destruct (R5 id ts (or_introl I)) as [X|(res & tc & X1 & X2)]; [left; exact X|].
        right. exists res, tc. split; [apply Ce; exact X1|exact X2].
      - destruct (R5 id ts (or_intror (Pe _ _ I))) as [X|(res & tc & X1 & X2)]; [left; exact X|].
        right. exists res, tc. split; [apply Ce; exact X1|exact X2]. }
    destruct e; cbn [term_step] in E;
      try (inversion E; subst st1; apply Triv; [reflexivity|reflexivity|
             intros id0 ts0 [X|X]; [discriminate|exact X]|intros; right; assumption]).
    + (* ConnError *)
      destruct (side =? s) eqn:Ks.
      * apply N.eqb_eq in Ks. subst side.
        destruct (tclock st <=? t0) eqn:Kc; [|discriminate]. apply N.leb_le in Kc.
        inversion E; subst st1; clear E.
        assert (W1 : forall te, terr (mkts (match terr st with None => Some t0 | Some te => Some te end) (tops st) t0) = Some te ->
                                te <= tclock (mkts (match terr st with None => Some t0 | Some te => Some te end) (tops st) t0)).
        { cbn. intros te Hte. destruct (terr st) eqn:T; inversion Hte; subst; [specialize (W _ eq_refl); lia|lia]. }
        destruct (IH _ _ H W1) as (R1 & R2 & R3 & R4 & R5). cbn [terr tops tclock] in *.
        cbn [first_err]. rewrite N.eqb_refl.
        split. { rewrite R1. destruct (terr st); reflexivity. }
        split; [lia|]. split; [exact R3|].
        split. { intros T te Hte. rewrite T in R1. rewrite R1 in Hte. inversion Hte; subst. exact Kc. }
        intros id ts [I|[X|I]]; [| discriminate |].
        -- destruct (R5 id ts (or_introl I)) as [X|(res & tc & X1 & X2)]; [left; exact X|].
           right. exists res, tc. split; [right; exact X1|exact X2].
        -- destruct (R5 id ts (or_intror I)) as [X|(res & tc & X1 & X2)]; [left; exact X|].
           right. exists res, tc. split; [right; exact X1|exact X2].
      * inversion E; subst st1. apply Triv; [reflexivity|cbn [first_err]; rewrite Ks; reflexivity|
          intros id0 ts0 [X|X]; [discriminate|exact X]|intros; right; assumption].
    + (* OpPending *)
      destruct (side =? s) eqn:Ks.
      * apply N.eqb_eq in Ks. subst side.
        destruct (tclock st <=? t0) eqn:Kc; [|discriminate]. apply N.leb_le in Kc.
        inversion E; subst st1; clear E.
        assert (W1 : forall te, terr (mkts (terr st) ((id, t0) :: tops st) t0) = Some te ->
                                te <= tclock (mkts (terr st) ((id, t0) :: tops st) t0)).
        { cbn. intros te Hte. specialize (W _ Hte). lia. }
        destruct (IH _ _ H W1) as (R1 & R2 & R3 & R4 & R5). cbn [terr tops tclock] in *.
        cbn [first_err].
        split; [exact R1|]. split; [lia|]. split; [exact R3|].
        split. { intros T te Hte. specialize (R4 T _ Hte). lia. }
        intros id0 ts0 Hin.
        assert (Hin' : In (id0, ts0) ((id, t0) :: tops st) \/ In (OpPending s id0 ts0) t).
        { destruct Hin as [I|[X|I]]; [left; right; exact I| inversion X; subst; left; left; reflexivity | right; exact I]. }
        destruct (R5 id0 ts0 Hin') as [X|(res & tc & X1 & X2)]; [left; exact X|].
        right. exists res, tc. split; [right; exact X1|exact X2].
      * inversion E; subst st1. apply Triv; [reflexivity|reflexivity| |intros; right; assumption].
        intros id0 ts0 [X|X]; [|exact X]. inversion X; subst. rewrite N.eqb_refl in Ks. discriminate.
    + (* OpCompleted *)
      destruct (side =? s) eqn:Ks.
      * apply N.eqb_eq in Ks. subst side.
        destruct (tclock st <=? t0) eqn:Kc; [|discriminate]. apply N.leb_le in Kc.
        destruct (filter (fun p => fst p =? id) (tops st)) as [|m ms] eqn:Fm; [discriminate|].
        destruct (forallb (fun p => bound_ok B (terr st) (snd p) t0) (m :: ms)) eqn:Fb; [|discriminate].
        inversion E; subst st1; clear E.
        assert (W1 : forall te, terr (mkts (terr st) (filter (fun p => negb (fst p =? id)) (tops st)) t0) = Some te ->
                                te <= tclock (mkts (terr st) (filter (fun p => negb (fst p =? id)) (tops st)) t0)).
        { cbn. intros te Hte. specialize (W _ Hte). lia. }
        destruct (IH _ _ H W1) as (R1 & R2 & R3 & R4 & R5). cbn [terr tops tclock] in *.
        cbn [first_err].
        split; [exact R1|]. split; [lia|]. split; [exact R3|].
        split. { intros T te Hte. specialize (R4 T _ Hte). lia. }
        intros id0 ts0 Hin.
        destruct Hin as [I|[X|I]]; [| discriminate |].
        -- destruct (N.eqb_spec id0 id) as [->|Ne].
           ++ (* this operation completes here *)
              right. exists res, t0. split; [left; reflexivity|]. split; [lia|].
              intros te Hte.
              assert (Im : In (id, ts0) (m :: ms)).
              { rewrite <- Fm. apply filter_In. split; [exact I|cbn; apply N.eqb_refl]. }
              rewrite forallb_forall in Fb. specialize (Fb _ Im). cbn [snd] in Fb.
              destruct (terr st) as [te0|] eqn:T.
              ** rewrite R1 in Hte. inversion Hte; subst te0. cbn in Fb. apply N.leb_le in Fb. exact Fb.
              ** specialize (R4 eq_refl _ Hte). lia.
           ++ assert (I' : In (id0, ts0) (filter (fun p => negb (fst p =? id)) (tops st))).
              { apply filter_In. split; [exact I|]. cbn. apply negb_true_iff. apply N.eqb_neq. exact Ne. }
              destruct (R5 id0 ts0 (or_introl I')) as [X|(res0 & tc & X1 & X2)]; [left; exact X|].
              right. exists res0, tc. split; [right; exact X1|exact X2].
        -- destruct (R5 id0 ts0 (or_intror I)) as [X|(res0 & tc & X1 & X2)]; [left; exact X|].
           right. exists res0, tc. split; [right; exact X1|exact X2].
      * inversion E; subst st1. apply Triv; [reflexivity|reflexivity|
          intros id0 ts0 [X|X]; [discriminate|exact X]|intros; right; assumption].
Qed.

Lemma p_term_side : forall B h s,
  term_end_ok (term_run B h s) = true ->
  forall te, first_err h s = Some te ->
  forall id ts, In (OpPending s id ts) h ->
  exists res tc, In (OpCompleted s id res tc) h /\ tc <= N.max te ts + B.
Proof.
  intros B h s H te Fe id ts I.
  unfold term_run in H.
  pose proof (run_exec _ (term_step B s) h ts0 0) as RE.
  destruct (run (term_step B s) ts0 h 0) as [st'|] eqn:R; [|cbn in H; discriminate].
  assert (W0 : forall te0, terr ts0 = Some te0 -> te0 <= tclock ts0) by (cbn; intros; discriminate).
  destruct (term_exec_inv B s h ts0 st' RE W0) as (R1 & _ & _ & _ & R5).
  cbn [terr ts0] in R1. rewrite Fe in R1. cbn [term_end_ok] in H. rewrite R1 in H.
  destruct (R5 id ts (or_intror I)) as [X|(res & tc & X1 & _ & X3)].
  - destruct (tops st'); [destruct X|discriminate].
  - exists res, tc. split; [exact X1|apply X3; exact R1].
Qed.

(* ------------------------------------------------------------------ 6. liveness clause *)
Lemma other_other : forall r, r < 2 -> other (other r) = r.
Proof.
  intros r H. unfold other. destruct (N.eqb_spec r 0) as [->|Ne]; [reflexivity|].
  cbn. lia.
Qed.

Lemma not_in_wkeys : forall h r sid, r < 2 -> ~ In (r, sid) (wkeys h) ->
  writes h (other r) sid = [] /\ shutdown_in h (other r) sid = false.
Proof.
  induction h as [|e t IH]; intros r sid Hr H; [cbn; auto|].
  destruct e; cbn [wkeys writes shutdown_in] in *; try (apply IH; assumption).
  - destruct ((side =? other r) && (sid0 =? sid)) eqn:K.
    + exfalso. apply H. left. apply andb_true_iff in K. destruct K as [K1 K2].
      apply N.eqb_eq in K1, K2. subst. rewrite other_other by exact Hr. reflexivity.
    + apply IH; [exact Hr|]. intro; apply H; right; assumption.
  - destruct ((side =? other r) && (sid0 =? sid)) eqn:K.
    + exfalso. apply H. left. apply andb_true_iff in K. destruct K as [K1 K2].
      apply N.eqb_eq in K1, K2. subst. rewrite other_other by exact Hr. reflexivity.
    + cbn. apply IH; [exact Hr|]. intro; apply H; right; assumption.
Qed.

Lemma has_established_in : forall s h, has_established s h = true -> exists t, In (ConnEstablished s t) h.
Proof.
  intros s. induction h as [|e r IH]; intro H; [discriminate|].
  destruct e; cbn [has_established] in H; try (destruct (IH H) as [t0 I]; exists t0; right; exact I).
  apply orb_true_iff in H. destruct H as [H|H].
  - apply N.eqb_eq in H. subst. exists t. left; reflexivity.
  - destruct (IH H) as [t0 I]. exists t0. right; exact I.
Qed.

Lemma p_live : forall h r sid, r < 2 ->
  streams_ok h = true -> live_ok h = true ->
  reads h r sid = writes h (other r) sid /\
  (shutdown_in h (other r) sid = true -> eos_in h r sid = true).
Proof.
  intros h r sid Hr S L.
  destruct (in_dec key_dec (r, sid) (wkeys h)) as [I|I].
  - unfold live_ok in L. apply andb_true_iff in L. destruct L as [_ L].
    rewrite forallb_forall in L. specialize (L _ (in_dedup _ _ I)).
    unfold stream_run in L. cbn [fst snd] in L.
    pose proof (run_exec _ (stream_step r sid) h ss0 0) as RE.
    destruct (run (stream_step r sid) ss0 h 0) as [s'|] eqn:R; [|cbn in L; discriminate].
    cbn [complete] in L. destruct (pend s') eqn:P; [|discriminate].
    destruct (stream_exec_inv _ _ _ _ _ RE wf_ss0) as (A & _ & C & D & _).
    cbn [pend shut eos ss0 app] in *. rewrite P, app_nil_r in A.
    split; [symmetry; exact A|]. intro Sh. rewrite Sh in C. cbn in C. rewrite C in L. cbn in L.
    rewrite L in D. cbn in D. symmetry; exact D.
  - destruct (not_in_wkeys _ _ _ Hr I) as [W Sd]. rewrite W, Sd.
    destruct (p_streams_prefix h [] r sid) as [[rest P] _]; [rewrite app_nil_r; exact S|].
    rewrite W in P. split; [|discriminate].
    destruct (reads h r sid); [reflexivity|discriminate].
Qed.

(* ------------------------------------------------------------------ the property statements *)
Lemma monitor_parts : forall live B h, monitor live B h = true ->
  simple_ok h = true /\ streams_ok h = true /\ dgrams_ok h = true /\ closed_ok h = true /\
  term_ok B h = true /\ (live = true -> live_ok h = true).
Proof.
  intros live B h H. unfold monitor in H. repeat (apply andb_true_iff in H; destruct H as [H ?]).
  repeat (split; [assumption|]). intros ->. assumption.
Qed.

Lemma side_lt2 : forall s, s < 2 -> s = 0 \/ s = 1.
Proof. intros; lia. Qed.

Lemma p_c02_streams : forall live B h, monitor live B h = true ->
  forall h1 h2, h = h1 ++ h2 -> forall r sid,
    (exists rest, writes h1 (other r) sid = reads h1 r sid ++ rest) /\
    (eos_in h1 r sid = true ->
       reads h1 r sid = writes h1 (other r) sid /\ shutdown_in h1 (other r) sid = true /\
       writes h2 (other r) sid = []).
Proof.
  intros live B h H h1 h2 -> r sid. destruct (monitor_parts _ _ _ H) as (_ & S & _).
  apply p_streams_prefix; exact S.
Qed.

Lemma p_c02_datagrams : forall live B h, monitor live B h = true ->
  (forall h1 r bs h2, h = h1 ++ DgramRecv r bs :: h2 -> In bs (dsent h1 (other r))) /\
  (forall r, r < 2 -> exists rest, Permutation (dsent h (other r)) (drecv h r ++ rest)).
Proof.
  intros live B h H. destruct (monitor_parts _ _ _ H) as (Si & _ & D & _).
  unfold dgrams_ok in D. apply andb_true_iff in D. destruct D as [D0 D1].
  unfold dgram_run in D0, D1. apply accepted_exec in D0, D1.
  destruct D0 as (o0 & D0 & _). destruct D1 as (o1 & D1 & _).
  split.
  - intros h1 r bs h2 Hh.
    assert (Hr : r < 2).
    { assert (I : In (DgramRecv r bs) h) by (rewrite Hh; apply in_or_app; right; left; reflexivity).
      pose proof (p_simple h Si _ I) as E. cbn in E. apply N.ltb_lt in E. exact E. }
    destruct (side_lt2 _ Hr) as [->| ->].
    + pose proof (dgram_exec_in 0 h [] o0 D0 h1 bs h2 Hh) as X. exact X.
    + pose proof (dgram_exec_in 1 h [] o1 D1 h1 bs h2 Hh) as X. exact X.
  - intros r Hr. destruct (side_lt2 _ Hr) as [->| ->].
    + exists o0. apply (dgram_exec_perm 0 h [] o0 D0).
    + exists o1. apply (dgram_exec_perm 1 h [] o1 D1).
Qed.

Lemma p_c02_termination : forall live B h, monitor live B h = true ->
  (forall s, ~ In (Panic s) h) /\ (forall t, ~ In (Stall t) h) /\
  (forall s k t, In (ConnError s k t) h -> k < 2) /\
  (forall s te, first_err h s = Some te ->
     forall id ts, In (OpPending s id ts) h ->
     exists res tc, In (OpCompleted s id res tc) h /\ tc <= N.max te ts + B).
Proof.
  intros live B h H. destruct (monitor_parts _ _ _ H) as (Si & _ & _ & _ & T & _).
  split; [intros s I; pose proof (p_simple h Si _ I) as E; discriminate|].
  split; [intros t I; pose proof (p_simple h Si _ I) as E; discriminate|].
  split.
  - intros s k t I. pose proof (p_simple h Si _ I) as E. cbn in E.
    apply andb_true_iff in E. destruct E as [_ E]. apply N.ltb_lt in E. exact E.
  - intros s te Fe id ts I.
    assert (Hs : s < 2).
    { pose proof (p_simple h Si _ I) as E. cbn in E. apply N.ltb_lt in E. exact E. }
    unfold term_ok in T. apply andb_true_iff in T. destruct T as [T0 T1].
    destruct (side_lt2 _ Hs) as [->| ->]; eapply p_term_side; eauto.
Qed.

Lemma p_c02_closed : forall live B h, monitor live B h = true ->
  forall h1 s t h2, h = h1 ++ Closed s t :: h2 -> forall e, In e h2 -> data_event_of s e = false.
Proof.
  intros live B h H h1 s t h2 Hh e He. destruct (monitor_parts _ _ _ H) as (Si & _ & _ & C & _).
  assert (Hs : s < 2).
  { assert (I : In (Closed s t) h) by (rewrite Hh; apply in_or_app; right; left; reflexivity).
    pose proof (p_simple h Si _ I) as E. cbn in E. apply N.ltb_lt in E. exact E. }
  unfold closed_ok in C. apply andb_true_iff in C. destruct C as [C0 C1].
  unfold closed_run in C0, C1. apply accepted_exec in C0, C1.
  destruct C0 as (c0 & C0 & _). destruct C1 as (c1 & C1 & _).
  destruct (side_lt2 _ Hs) as [->| ->]; eapply closed_exec_after; eauto.
Qed.

Lemma p_c02_liveness : forall B h, monitor true B h = true ->
  (exists t, In (ConnEstablished 0 t) h) /\ (exists t, In (ConnEstablished 1 t) h) /\
  forall r sid, r < 2 ->
    reads h r sid = writes h (other r) sid /\
    (shutdown_in h (other r) sid = true -> eos_in h r sid = true).
Proof.
  intros B h H. destruct (monitor_parts _ _ _ H) as (_ & S & _ & _ & _ & L). specialize (L eq_refl).
  pose proof L as L'. unfold live_ok in L'. apply andb_true_iff in L'. destruct L' as [E _].
  apply andb_true_iff in E. destruct E as [E0 E1].
  split; [apply has_established_in; exact E0|]. split; [apply has_established_in; exact E1|].
  intros r sid Hr. apply p_live; assumption.
Qed.
