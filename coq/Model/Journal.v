(* Stream `journal`: one received-packet journal, one sent-packet journal and the (paused)
   clock, driven by the operation list shared with harness/hr/src/bin/impl_journal.rs.
   A journal whose lock was poisoned by a panic answers PANIC (-77) to everything afterwards,
   exactly as the RwLock / Mutex of the real ArcRcvdJournal / ArcSentJournal do. *)
From Coq Require Import List ZArith Bool.
From GQ Require Export Model.RcvdJournal Model.SentJournal.
Import ListNotations.
Local Open Scope Z_scope.

Record jstate := mkjs { j_now : Z; j_r : option rjournal; j_s : option sjournal }.

Inductive jop :=
| JTick (dt : Z)
| JDecode (p : pnum)
| JRcvd (pn : Z) (el : bool) (pto : Z)
| JGenAck (pn largest rt cap : Z)
| JPeerAck (f : ackframe)
| JNeedAck
| JRDump
| JNewPkt (sc : np_script)
| JRotate (ops : list rot_op)
| JSDump.

Fixpoint flat_ranges (rs : list (Z * Z)) : list Z :=
  match rs with [] => [] | (g, a) :: r => g :: a :: flat_ranges r end.

Definition print_frame (f : ackframe) : list Z :=
  [a_largest f; a_delay f; a_first f; Z.of_nat (length (a_ranges f))] ++ flat_ranges (a_ranges f)
  ++ [ack_encoding_size f].

Definition jstep (s : jstate) (o : jop) : jstate * list Z :=
  let now := j_now s in
  match o with
  | JTick dt => (mkjs (now + dt) (j_r s) (j_s s), [now + dt])
  | JNewPkt sc =>
      match j_s s with
      | None => (s, [PANIC])
      | Some sj =>
          let '(sj', pe, consumed) := new_packet sj now sc in
          (mkjs now (j_r s) sj',
           match pe with
           | None => [PANIC]
           | Some (pn, e) => [pn; width e; payload e; match sj' with Some _ => b2z consumed | None => PANIC end]
           end)
      end
  | JRotate ops =>
      match j_s s with
      | None => (s, [PANIC])
      | Some sj => let '(sj', outs) := rotate sj now ops in (mkjs now (j_r s) sj', outs)
      end
  | JSDump =>
      match j_s s with None => (s, [PANIC]) | Some sj => (s, dump_sj sj) end
  | _ =>
      match j_r s with
      | None => (s, [PANIC])
      | Some rj =>
          match o with
          | JDecode p =>
              match decode_pn rj p with
              | DpnOk pn => (s, [0; pn])
              | DpnTooOld => (s, [1])
              | DpnDuplicate => (s, [2])
              | DpnPanic => (mkjs now None (j_s s), [PANIC])
              end
          | JRcvd pn el pto =>
              match on_rcvd_pn rj now pn el pto with
              | Some rj' => (mkjs now (Some rj') (j_s s), [0])
              | None => (mkjs now None (j_s s), [PANIC])
              end
          | JGenAck pn largest rt cap =>
              match gen_ack rj now pn largest rt cap with
              | GaOk rj' f => (mkjs now (Some rj') (j_s s), 0 :: print_frame f)
              | GaErr rj' => (mkjs now (Some rj') (j_s s), [1])
              | GaPanic => (mkjs now None (j_s s), [PANIC])
              end
          | JPeerAck f =>
              match on_rcvd_ack rj now f with
              | Some rj' => (mkjs now (Some rj') (j_s s), [0])
              | None => (mkjs now None (j_s s), [PANIC])
              end
          | JNeedAck =>
              match need_ack rj now with
              | Some (l, t) => (s, [1; l; t])
              | None => (s, [0])
              end
          | JRDump => (s, dump_rj rj)
          | _ => (s, [-99])
          end
      end
  end.

Fixpoint jrun (s : jstate) (ops : list jop) : list (list Z) :=
  match ops with
  | [] => []
  | o :: rest => let '(s', obs) := jstep s o in obs :: jrun s' rest
  end.

(* ---- wire form of the operations ---- *)
Fixpoint unflat_ranges (l : list Z) : list (Z * Z) :=
  match l with g :: a :: r => (g, a) :: unflat_ranges r | _ => [] end.

Definition rot_decode1 (k p : Z) : rot_op :=
  if k =? 0 then RoAcked p else if k =? 1 then RoLost p else if k =? 2 then RoFast else RoLargest p.
Fixpoint rot_decode (l : list Z) : list rot_op :=
  match l with k :: p :: r => rot_decode1 k p :: rot_decode r | _ => [] end.

Definition mode_decode (m : Z) : np_mode :=
  if m =? 0 then NpBuildTime else if m =? 1 then NpBuildTrivial else NpAbandon.

Definition jdecode (t : N) (a : list Z) : option jop :=
  match t, a with
  | 0%N, [dt] => Some (JTick dt)
  | 1%N, [w; x] => Some (JDecode (mk_pnum w x))
  | 2%N, [pn; el; pto] => Some (JRcvd pn (negb (el =? 0)) pto)
  | 3%N, [pn; largest; rt; cap] => Some (JGenAck pn largest rt cap)
  | 4%N, largest :: delay :: first :: rs => Some (JPeerAck (mkack largest delay first (unflat_ranges rs)))
  | 5%N, [] => Some JNeedAck
  | 6%N, [] => Some JRDump
  | 10%N, triv :: mode :: retran :: expire :: frames =>
      Some (JNewPkt (mknp frames (negb (triv =? 0)) (mode_decode mode) retran expire))
  | 11%N, l => Some (JRotate (rot_decode l))
  | 12%N, [] => Some JSDump
  | _, _ => None
  end.

Fixpoint jdecode_all (l : list (N * list Z)) : list jop :=
  match l with
  | [] => []
  | (t, a) :: rest => match jdecode t a with Some o => o :: jdecode_all rest | None => jdecode_all rest end
  end.

(* cfg = [max_ack_delay in ms, or -1 for None] *)
Definition jinit (cfg : list Z) : jstate :=
  let mad := match cfg with d :: _ => if d <? 0 then None else Some d | [] => None end in
  mkjs 0 (Some (rj_new mad)) (Some sj_new).

Definition run_journal (cfg : list Z) (l : list (N * list Z)) : list (list Z) :=
  jrun (jinit cfg) (jdecode_all l).
