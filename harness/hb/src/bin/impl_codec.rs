//! Correspondence stream `codec` (C05, C03): frames and varints through the real qbase codec.
//! ops (see coq/Model/FramesIO.v): 1 ptype bytes… | 2 ptype bytes… | 3 typecode fields… | 4 x | 5 bytes… | 6 ptype bytes…
use std::net::{IpAddr, Ipv4Addr, Ipv6Addr, SocketAddr};

use bytes::Bytes;
use hproto::{Obs, Op};
use qbase::{
    cid::ConnectionId,
    error::{ErrorFrameType, ErrorKind, QuicError},
    frame::{
        io::{WriteDataFrame, WriteFrame, be_frame},
        *,
    },
    net::{Family, NatType},
    packet::{
        SpinBit,
        r#type::{
            Type,
            long::{Type::V1, Ver1},
            short::OneRtt,
        },
    },
    sid::{Dir, StreamId},
    varint::{VarInt, WriteVarInt, be_varint},
};

fn ptype(v: u64) -> Type {
    match v {
        0 => Type::Long(V1(Ver1::INITIAL)),
        1 => Type::Long(V1(Ver1::HANDSHAKE)),
        2 => Type::Long(V1(Ver1::ZERO_RTT)),
        _ => Type::Short(OneRtt(SpinBit::Zero)),
    }
}

fn vi(v: i128) -> VarInt {
    VarInt::from_u64(v as u64).expect("varint field out of range")
}

fn pbytes(o: &mut Obs, b: &[u8]) {
    o.push_usize(b.len());
    o.push_bytes(b);
}
fn preason(o: &mut Obs, s: &str) {
    if s.is_ascii() {
        pbytes(o, s.as_bytes());
    } else {
        o.push(-1);
    }
}
fn paddr(o: &mut Obs, a: SocketAddr) {
    o.push(a.port());
    match a.ip() {
        IpAddr::V4(ip) => {
            o.push(u32::from(ip));
        }
        IpAddr::V6(ip) => {
            o.push_u128(u128::from(ip));
        }
    };
}

fn ferr_code(e: &Error) -> u8 {
    match e {
        Error::NoFrames => 0,
        Error::IncompleteType(_) => 1,
        Error::InvalidType(_) => 2,
        Error::WrongType(..) => 3,
        Error::IncompleteFrame(..) => 4,
        Error::ParseError(..) => 5,
    }
}

fn kind_code(k: ErrorKind) -> u64 {
    VarInt::from(k).into_u64()
}

fn fields(f: &Frame, o: &mut Obs) {
    match f {
        Frame::Padding(_) | Frame::Ping(_) | Frame::HandshakeDone(_) => {}
        Frame::Ack(a) => {
            o.push(a.largest()).push(a.delay()).push(a.first_range()).push_usize(a.ranges().len());
            for (g, r) in a.ranges() {
                o.push(g.into_u64()).push(r.into_u64());
            }
            match a.ecn() {
                Some(e) => {
                    o.push(1u8).push(e.ect0()).push(e.ect1()).push(e.ce());
                }
                None => {
                    o.push(0u8);
                }
            }
        }
        Frame::Close(ConnectionCloseFrame::Quic(q)) => {
            o.push(kind_code(q.error_kind())).push(VarInt::from(q.frame_type()).into_u64());
            preason(o, q.reason());
        }
        Frame::Close(ConnectionCloseFrame::App(a)) => {
            o.push(a.error_code());
            preason(o, a.reason());
        }
        Frame::NewToken(t) => pbytes(o, t.token()),
        Frame::MaxData(m) => {
            o.push(m.max_data());
        }
        Frame::DataBlocked(m) => {
            o.push(m.limit());
        }
        Frame::NewConnectionId(n) => {
            o.push(n.sequence()).push(n.retire_prior_to());
            pbytes(o, n.connection_id());
            pbytes(o, n.reset_token().as_slice());
        }
        Frame::RetireConnectionId(r) => {
            o.push(r.sequence());
        }
        Frame::PathChallenge(p) => pbytes(o, &p[..]),
        Frame::PathResponse(p) => pbytes(o, &p[..]),
        Frame::StreamCtl(c) => match c {
            StreamCtlFrame::ResetStream(r) => {
                o.push(u64::from(r.stream_id())).push(r.app_error_code()).push(r.final_size());
            }
            StreamCtlFrame::StopSending(s) => {
                o.push(u64::from(s.stream_id())).push(s.app_err_code());
            }
            StreamCtlFrame::MaxStreamData(m) => {
                o.push(u64::from(m.stream_id())).push(m.max_stream_data());
            }
            StreamCtlFrame::MaxStreams(MaxStreamsFrame::Bi(v) | MaxStreamsFrame::Uni(v)) => {
                o.push(v.into_u64());
            }
            StreamCtlFrame::StreamDataBlocked(s) => {
                o.push(u64::from(s.stream_id())).push(s.maximum_stream_data());
            }
            StreamCtlFrame::StreamsBlocked(StreamsBlockedFrame::Bi(v) | StreamsBlockedFrame::Uni(v)) => {
                o.push(v.into_u64());
            }
        },
        Frame::Stream(s, d) => {
            let FrameType::Stream(_, len, _) = s.frame_type() else { unreachable!() };
            o.push(u64::from(s.stream_id())).push(s.offset()).push_bool(len == Len::Explicit).push_bool(s.is_fin());
            pbytes(o, d);
        }
        Frame::Crypto(c, d) => {
            o.push(c.offset());
            pbytes(o, d);
        }
        Frame::Datagram(_, d) => pbytes(o, d),
        Frame::AddAddress(a) => {
            o.push(a.seq_num());
            paddr(o, **a);
            o.push(a.tire()).push(a.nat_type() as u8);
        }
        Frame::RemoveAddress(r) => {
            o.push(r.seq_num.into_u64());
        }
        Frame::PunchMeNow(p) => {
            o.push(p.local_seq()).push(p.remote_seq());
            paddr(o, p.address());
            o.push(p.tire()).push(p.nat_type() as u8);
        }
        Frame::PunchHello(p) => {
            o.push(p.local_seq()).push(p.remote_seq()).push(p.probe_id());
        }
        Frame::PunchDone(p) => {
            o.push(p.local_seq()).push(p.remote_seq()).push(p.probe_id());
        }
    }
}

fn take_bytes(a: &[i128], pos: &mut usize) -> Vec<u8> {
    let n = a[*pos] as usize;
    let v: Vec<u8> = a[*pos + 1..*pos + 1 + n].iter().map(|x| *x as u8).collect();
    *pos += 1 + n;
    v
}

fn addr(v6: bool, port: i128, ip: i128) -> SocketAddr {
    if v6 {
        SocketAddr::new(IpAddr::V6(Ipv6Addr::from(ip as u128)), port as u16)
    } else {
        SocketAddr::new(IpAddr::V4(Ipv4Addr::from(ip as u32)), port as u16)
    }
}

fn nat(v: i128) -> NatType {
    NatType::try_from(v as u8).expect("nat type")
}

/// builds the frame from its field list through the public constructors and encodes it
fn encode(code: u64, a: &[i128], o: &mut Obs) {
    let ft = match FrameType::try_from(VarInt::from_u64(code).unwrap()) {
        Ok(t) => t,
        Err(_) => {
            o.push(-2);
            return;
        }
    };
    let mut buf: Vec<u8> = Vec::new();
    let (size, max) = match ft {
        FrameType::Padding => (enc(&mut buf, &PaddingFrame), PaddingFrame.max_encoding_size()),
        FrameType::Ping => (enc(&mut buf, &PingFrame), PingFrame.max_encoding_size()),
        FrameType::HandshakeDone => (enc(&mut buf, &HandshakeDoneFrame), HandshakeDoneFrame.max_encoding_size()),
        FrameType::Ack(_) => {
            let n = a[3] as usize;
            let ranges = (0..n).map(|i| (vi(a[4 + 2 * i]), vi(a[5 + 2 * i]))).collect();
            let rest = &a[4 + 2 * n..];
            let ecn = if rest[0] == 1 { Some(EcnCounts::new(vi(rest[1]), vi(rest[2]), vi(rest[3]))) } else { None };
            let f = AckFrame::new(vi(a[0]), vi(a[1]), vi(a[2]), ranges, ecn);
            (enc(&mut buf, &f), f.max_encoding_size())
        }
        FrameType::ResetStream => {
            let f = ResetStreamFrame::new(StreamId::from(vi(a[0])), vi(a[1]), vi(a[2]));
            (enc(&mut buf, &f), f.max_encoding_size())
        }
        FrameType::StopSending => {
            let f = StopSendingFrame::new(StreamId::from(vi(a[0])), vi(a[1]));
            (enc(&mut buf, &f), f.max_encoding_size())
        }
        FrameType::Crypto => {
            let mut p = 1;
            let d = take_bytes(a, &mut p);
            let f = CryptoFrame::new(vi(a[0]), vi(d.len() as i128));
            buf.put_data_frame(&f, &Bytes::from(d));
            (f.encoding_size(), f.max_encoding_size())
        }
        FrameType::NewToken => {
            let mut p = 0;
            let f = NewTokenFrame::new(take_bytes(a, &mut p));
            (enc(&mut buf, &f), f.max_encoding_size())
        }
        FrameType::Stream(..) => {
            let mut p = 4;
            let d = take_bytes(a, &mut p);
            let mut f = StreamFrame::new(StreamId::from(vi(a[0])), a[1] as u64, d.len());
            f.set_eos_flag(a[3] != 0);
            f.set_len_bit(if a[2] != 0 { Len::Explicit } else { Len::Omit });
            buf.put_data_frame(&f, &Bytes::from(d));
            (f.encoding_size(), f.max_encoding_size())
        }
        FrameType::MaxData => {
            let f = MaxDataFrame::new(vi(a[0]));
            (enc(&mut buf, &f), f.max_encoding_size())
        }
        FrameType::MaxStreamData => {
            let f = MaxStreamDataFrame::new(StreamId::from(vi(a[0])), vi(a[1]));
            (enc(&mut buf, &f), f.max_encoding_size())
        }
        FrameType::MaxStreams(d) => {
            let f = MaxStreamsFrame::with(d, vi(a[0]));
            (enc(&mut buf, &f), f.max_encoding_size())
        }
        FrameType::DataBlocked => {
            let f = DataBlockedFrame::new(vi(a[0]));
            (enc(&mut buf, &f), f.max_encoding_size())
        }
        FrameType::StreamDataBlocked => {
            let f = StreamDataBlockedFrame::new(StreamId::from(vi(a[0])), vi(a[1]));
            (enc(&mut buf, &f), f.max_encoding_size())
        }
        FrameType::StreamsBlocked(d) => {
            let f = StreamsBlockedFrame::with(d, vi(a[0]));
            (enc(&mut buf, &f), f.max_encoding_size())
        }
        FrameType::NewConnectionId => {
            // the constructor draws a random reset token: not encodable from fields (covered by op 6)
            o.push(-3);
            return;
        }
        FrameType::RetireConnectionId => {
            let f = RetireConnectionIdFrame::new(vi(a[0]));
            (enc(&mut buf, &f), f.max_encoding_size())
        }
        FrameType::PathChallenge => {
            let mut p = 0;
            let f = PathChallengeFrame::from_slice(&take_bytes(a, &mut p));
            (enc(&mut buf, &f), f.max_encoding_size())
        }
        FrameType::PathResponse => {
            let mut p = 0;
            let f: PathResponseFrame = PathChallengeFrame::from_slice(&take_bytes(a, &mut p)).into();
            (enc(&mut buf, &f), f.max_encoding_size())
        }
        FrameType::ConnectionClose(Layer::Quic) => {
            let mut p = 2;
            let r = String::from_utf8(take_bytes(a, &mut p)).expect("ascii reason");
            let kind = ErrorKind::try_from(vi(a[0])).expect("error kind");
            let fty = FrameType::try_from(vi(a[1])).expect("frame type");
            let f = ConnectionCloseFrame::new_quic(kind, ErrorFrameType::V1(fty), r);
            (enc(&mut buf, &f), f.max_encoding_size())
        }
        FrameType::ConnectionClose(Layer::App) => {
            let mut p = 1;
            let r = String::from_utf8(take_bytes(a, &mut p)).expect("ascii reason");
            let f = ConnectionCloseFrame::new_app(vi(a[0]), r);
            (enc(&mut buf, &f), f.max_encoding_size())
        }
        FrameType::Datagram(w) => {
            let mut p = 0;
            let d = take_bytes(a, &mut p);
            let f = DatagramFrame::new(w == 1, vi(d.len() as i128));
            buf.put_data_frame(&f, &Bytes::from(d));
            (f.encoding_size(), f.max_encoding_size())
        }
        FrameType::AddAddress(fam) => {
            let f = AddAddressFrame::new(a[0] as u32, addr(fam == Family::V6, a[1], a[2]), a[3] as u32, nat(a[4]));
            (enc(&mut buf, &f), f.max_encoding_size())
        }
        FrameType::RemoveAddress => {
            let f = RemoveAddressFrame { seq_num: vi(a[0]) };
            (enc(&mut buf, &f), f.max_encoding_size())
        }
        FrameType::PunchMeNow(fam) => {
            let f = PunchMeNowFrame::new(a[0] as u32, a[1] as u32, addr(fam == Family::V6, a[2], a[3]), a[4] as u32, nat(a[5]));
            (enc(&mut buf, &f), f.max_encoding_size())
        }
        FrameType::PunchHello => {
            let f = PunchHelloFrame::new(a[0] as u32, a[1] as u32, a[2] as u32);
            (enc(&mut buf, &f), f.max_encoding_size())
        }
        FrameType::PunchDone => {
            let f = PunchDoneFrame::new(a[0] as u32, a[1] as u32, a[2] as u32);
            (enc(&mut buf, &f), f.max_encoding_size())
        }
    };
    o.push(0u8).push_usize(size).push_usize(max);
    o.push_bytes(&buf);
}

fn enc<F: EncodeSize>(buf: &mut Vec<u8>, f: &F) -> usize
where
    Vec<u8>: WriteFrame<F>,
{
    buf.put_frame(f);
    f.encoding_size()
}

fn step(_: &mut (), op: &Op, _i: usize) -> Obs {
    let mut o = Obs::new();
    match op.tag {
        1 => {
            let raw = Bytes::from(op.bytes_from(1));
            match be_frame(&raw, ptype(op.u(0))) {
                Ok((consumed, frame, ft)) => {
                    o.push(0u8).push_usize(consumed).push(VarInt::from(ft).into_u64());
                    fields(&frame, &mut o);
                }
                Err(e) => {
                    o.push(1u8).push(ferr_code(&e)).push(kind_code(QuicError::from(e).kind()));
                }
            }
        }
        2 => {
            let reader = FrameReader::new(Bytes::from(op.bytes_from(1)), ptype(op.u(0)));
            let total = op.args.len() - 1;
            let mut before = total;
            let mut it = reader;
            // callers stop at the first error; bounded defensively so a non-consuming reader shows as a mismatch, not a hang
            for _ in 0..=total + 1 {
                match it.next() {
                    None => break,
                    Some(Ok((_f, ft))) => {
                        let now = it.len();
                        o.push(0u8).push_usize(before - now).push(VarInt::from(ft).into_u64());
                        before = now;
                    }
                    Some(Err(e)) => {
                        o.push(1u8).push(ferr_code(&e));
                        break;
                    }
                }
            }
        }
        3 => encode(op.u(0), &op.args[1..], &mut o),
        4 => {
            let v = vi(op.args[0]);
            let mut buf = Vec::new();
            buf.put_varint(&v);
            o.push_usize(v.encoding_size());
            o.push_bytes(&buf);
        }
        5 => {
            let b = op.bytes_from(0);
            match be_varint(&b) {
                Ok((rest, v)) => {
                    o.push(0u8).push(v.into_u64()).push_usize(b.len() - rest.len());
                }
                Err(_) => {
                    o.push(1u8);
                }
            }
        }
        6 => {
            let raw = Bytes::from(op.bytes_from(1));
            match be_frame(&raw, ptype(op.u(0))) {
                Ok((consumed, frame, _ft)) => {
                    let ascii = match &frame {
                        Frame::Close(ConnectionCloseFrame::Quic(q)) => q.reason().is_ascii(),
                        Frame::Close(ConnectionCloseFrame::App(a)) => a.reason().is_ascii(),
                        _ => true,
                    };
                    if !ascii {
                        o.push(0u8).push_usize(consumed).push(-1);
                        return o;
                    }
                    let mut buf: Vec<u8> = Vec::new();
                    buf.put_frame(&frame);
                    o.push(0u8).push_usize(consumed).push_usize(frame.encoding_size()).push_usize(frame.max_encoding_size());
                    o.push_bytes(&buf);
                }
                Err(e) => {
                    o.push(1u8).push(ferr_code(&e));
                }
            }
        }
        7 => {
            let f = StreamFrame::new(StreamId::from(vi(op.args[1])), op.u(2), op.u(3) as usize);
            let st = f.encoding_strategy(op.u(0) as usize);
            o.push(0u8).push_bool(st.len_bit() == Len::Explicit).push_usize(st.pre_padding());
        }
        8 => match StreamFrame::estimate_max_capacity(op.u(0) as usize, StreamId::from(vi(op.args[1])), op.u(2)) {
            Some(n) => {
                o.push(1u8).push_usize(n);
            }
            None => {
                o.push(0u8);
            }
        },
        9 => match CryptoFrame::estimate_max_capacity(op.u(0) as usize, op.u(1)) {
            Some(n) => {
                o.push(1u8).push_usize(n);
            }
            None => {
                o.push(0u8);
            }
        },
        _ => {
            o.push(-99);
        }
    }
    o
}

fn main() {
    let _ = (Dir::Bi, ConnectionId::default());
    hproto::run(|_| (), step);
}
