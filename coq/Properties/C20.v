(* C20 (addressable part) — event logging is well-formed: serde schema round trip, mandatory qlog
   fields, well-formedness of the regenerated schema of every qevent type.
   NOT claimed here: "never panics for lack of span context" and "same application-visible behaviour with
   logging on/off" (whole-stack properties).  Only theorem statements; proofs are in Proofs/SerdeRT.v
   (generic model) and Proofs/Serde.v (the schema table regenerated from qevent/src). *)
From Coq Require Import List ZArith Bool NArith String.
From GQ Require Import Model.Serde Generated.QeventSchema Proofs.Serde.
Import ListNotations.
Local Open Scope Z_scope.

(* main theorem: for every well-formed schema and every conforming value, parsing the serialisation
   gives the value back.  `conformsb` = typing + the value-level side conditions (integers in range,
   custom-field keys distinct from schema keys, an untagged alternative's JSON not claimed by an earlier
   alternative, a skipped field comes back from its missing-value, try_from validators hold). *)
Theorem c20_roundtrip : forall s v, wf s = true -> conformsb s v = true -> de s (ser s v) = Some v.
Proof. exact p_c20_roundtrip. Qed.

(* the regenerated schema of every qevent type is well-formed ... *)
Theorem c20_schema_wf : forall n s, In (n, s) qevent_types -> wf s = true.
Proof. exact p_c20_schema_wf_in. Qed.

(* ... hence the round trip holds for every type of the crate (new and legacy format) *)
Theorem c20_roundtrip_table : forall n s v, In (n, s) qevent_types -> conformsb s v = true ->
  de s (ser s v) = Some v.
Proof. exact p_c20_roundtrip_table. Qed.

(* the static defects of the schemas (skipped field without default: kind 1 = F50; statically shadowed
   untagged alternative: kind 7 = F51) are exactly the listed ones *)
Theorem c20_schema_defects : defects_of qevent_types = known_defects.
Proof. exact p_c20_schema_defects. Qed.

(* every serialised Event carries the mandatory qlog fields, in both formats; group_id whenever set *)
Theorem c20_mandatory : forall v, conformsb event_schema v = true ->
  has_key (k "time") (ser event_schema v) /\ has_key (k "name") (ser event_schema v) /\ has_key (k "data") (ser event_schema v).
Proof. exact p_c20_mandatory. Qed.

Theorem c20_mandatory_legacy : forall v, conformsb legacy_event_schema v = true ->
  has_key (k "time") (ser legacy_event_schema v) /\ has_key (k "name") (ser legacy_event_schema v)
  /\ has_key (k "data") (ser legacy_event_schema v).
Proof. exact p_c20_mandatory_legacy. Qed.

Theorem c20_group_id : forall t p tf pt g si fl ex,
  let v := VStruct [t; p; tf; pt; g; si] fl ex in
  conformsb event_schema v = true -> g <> VNone -> has_key (k "group_id") (ser event_schema v).
Proof. exact p_c20_group_id. Qed.

(* the full-strength statement (all values the builders can produce) is false: four witnesses, each
   outside `conformsb`, each replayed on the real crate (corpus/C20/qevent/f5*.case) *)
Theorem c20_roundtrip_refuted :
  (conformsb T_quic_transport_PacketsAcked w_f50 = false /\ de T_quic_transport_PacketsAcked (ser T_quic_transport_PacketsAcked w_f50) = None)
  /\ (conformsb T_quic_connectivity_ConnectionState w_f51 = false
      /\ de T_quic_connectivity_ConnectionState (ser T_quic_connectivity_ConnectionState w_f51) = Some (VEnum 0 (VEnum 3 VUnit)))
  /\ (conformsb T_ReferenceTime w_f52 = false /\ de T_ReferenceTime (ser T_ReferenceTime w_f52) = None)
  /\ (conformsb event_schema w_f53 = false /\ rt_fails event_schema w_f53 = true
      /\ de event_schema (canon (ser event_schema w_f53)) = None).
Proof. exact p_c20_refuted. Qed.

(* non-vacuity: a packet_sent Event (header, stream/ack/handshake_done frames, versions, path, protocol
   types, group id, one custom field) conforms, round-trips, and shows the expected top-level keys *)
Example c20_nonvacuous :
  wf event_schema = true /\ conformsb event_schema w_event = true
  /\ de event_schema (ser event_schema w_event) = Some w_event
  /\ map fst (members (canon (ser event_schema w_event))) =
     [k "data"; k "group_id"; k "name"; k "path"; k "protocol_types"; k "time"; k "to_router"].
Proof. exact p_c20_nonvacuous. Qed.

Print Assumptions c20_roundtrip.
Print Assumptions c20_schema_wf.
Print Assumptions c20_roundtrip_table.
Print Assumptions c20_schema_defects.
Print Assumptions c20_mandatory.
Print Assumptions c20_mandatory_legacy.
Print Assumptions c20_group_id.
Print Assumptions c20_roundtrip_refuted.
Print Assumptions c20_nonvacuous.
