//! Correspondence stream `connstate` (C17): drives the REAL `qconnection::state::ArcConnState`
//! at method granularity from one thread (every sequential order of calls is a schedule at that
//! granularity; the atomic-granularity interleavings are covered by the Coq model).
//!
//! ops:
//!   1 UPDATE s        `update(state s)`; s indexes the state list below (9 = the `CLOSED` constant)
//!   2 HANDSHAKED      `enter_handshaked()`
//!   3 CLOSING eid     `enter_closing(&error eid)`   (eid < 100: application close, else transport error)
//!   4 DRAINING eid    `enter_draining(&ConnectionCloseFrame::from(error eid))`
//!   5 CURRENT         `current()`
//!   6 TERM            poll `terminated()` once
//!   7 HS              poll `handshaked()` once
//! observation:
//!   1-4: old state code returned (`-1` = None, `-9` = the call panicked)
//!   5: code (0 = None);  6: `0` pending | `1 eid`;  7: `0` pending | `1` ok | `2 eid` | `3 eid` (both cells
//!   set: the unbiased select! may answer either way, the harness does not report which)
use std::future::Future;
use std::panic::{AssertUnwindSafe, catch_unwind};
use std::pin::Pin;
use std::task::{Context, Poll};

use hproto::{Obs, Op};
use qbase::{
    error::{AppError, Error, ErrorKind, QuicError},
    frame::ConnectionCloseFrame,
    varint::VarInt,
};
use qconnection::state::{ArcConnState, CLOSED, encode};
use qevent::quic::connectivity::{
    BaseConnectionStates as B, ConnectionState as S, GranularConnectionStates as G,
};

fn state_of(i: u64) -> S {
    match i {
        0 => S::Base(B::Attempted),
        1 => S::Base(B::HandshakeStarted),
        2 => S::Granular(G::PeerValidated),
        3 => S::Granular(G::EarlyWrite),
        4 => S::Base(B::HandshakeComplete),
        5 => S::Granular(G::HandshakeConfirmed),
        6 => S::Granular(G::Closing),
        7 => S::Granular(G::Draining),
        8 => S::Base(B::Closed),
        _ => CLOSED,
    }
}

pub fn error_of(eid: u64) -> Error {
    if eid < 100 {
        Error::App(AppError::new(VarInt::from_u64(eid).unwrap(), format!("e{eid}")))
    } else {
        let kind = match eid % 4 {
            0 => ErrorKind::Internal,
            1 => ErrorKind::ProtocolViolation,
            2 => ErrorKind::FlowControl,
            _ => ErrorKind::NoViablePath,
        };
        Error::Quic(QuicError::with_default_fty(kind, format!("e{eid}")))
    }
}

pub fn eid_of(e: &Error) -> i128 {
    let reason = match e {
        Error::Quic(q) => q.reason().to_owned(),
        Error::App(a) => a.reason().to_owned(),
    };
    reason.strip_prefix('e').and_then(|s| s.parse::<i128>().ok()).unwrap_or(-7)
}

fn poll_once<F: Future>(f: F) -> Poll<F::Output> {
    let waker = futures::task::noop_waker();
    let mut cx = Context::from_waker(&waker);
    let mut f = std::pin::pin!(f);
    Pin::new(&mut f).poll(&mut cx)
}

fn ret(o: &mut Obs, r: std::thread::Result<Option<S>>) {
    match r {
        Err(_) => o.push(-9),
        Ok(None) => o.push(-1),
        Ok(Some(old)) => o.push(encode(old) as i128),
    };
}

fn step(state: &mut (ArcConnState, bool), op: &Op, _i: usize) -> Obs {
    let mut o = Obs::new();
    let st = &state.0;
    match op.tag {
        1 => {
            let s = state_of(op.u(0));
            ret(&mut o, catch_unwind(AssertUnwindSafe(|| st.update(s))));
        }
        2 => {
            let r = catch_unwind(AssertUnwindSafe(|| st.enter_handshaked()));
            if matches!(r, Ok(Some(_))) {
                state.1 = true;
            }
            ret(&mut o, r);
        }
        3 => {
            let e = error_of(op.u(0));
            ret(&mut o, catch_unwind(AssertUnwindSafe(|| st.enter_closing(&e))));
        }
        4 => {
            let ccf: ConnectionCloseFrame = error_of(op.u(0)).into();
            ret(&mut o, catch_unwind(AssertUnwindSafe(|| st.enter_draining(&ccf))));
        }
        5 => {
            o.push(st.current().map(|s| encode(s) as i128).unwrap_or(0));
        }
        6 => match poll_once(st.terminated()) {
            Poll::Pending => {
                o.push(0);
            }
            Poll::Ready(e) => {
                o.push(1).push(eid_of(&e));
            }
        },
        // handshaked() is a tokio::select! without `biased`: with both cells set either branch may win
        7 if state.1 && matches!(poll_once(st.terminated()), Poll::Ready(_)) => {
            let _ = poll_once(st.handshaked());
            if let Poll::Ready(e) = poll_once(st.terminated()) {
                o.push(3).push(eid_of(&e));
            }
        }
        7 => match poll_once(st.handshaked()) {
            Poll::Pending => {
                o.push(0);
            }
            Poll::Ready(Ok(())) => {
                o.push(1);
            }
            Poll::Ready(Err(e)) => {
                o.push(2).push(eid_of(&e));
            }
        },
        _ => {
            o.push(-99);
        }
    }
    o
}

fn main() {
    let rt = tokio::runtime::Builder::new_current_thread()
        .enable_time()
        .start_paused(true)
        .build()
        .unwrap();
    let _g = rt.enter();
    hproto::run(|_| (ArcConnState::new(), false), step);
}
