(* C02 — a connection survives an adversarial network without corrupting data.
   What is PROVED here: (1) the history monitor of Model/C02Monitor.v is sound — a history it
   accepts satisfies the safety predicates of the property (and, in `live` mode, the delivery
   clause of the bounded-fault profile); (2) two composition statements over an abstract packet
   layer under the ideal-AEAD Section hypothesis.  What is only CHECKED (by ./check C02): that
   histories recorded from the real dquic endpoints under seeded network faults are accepted by
   the extracted monitor.  TLS, AEAD, tokio and the stack itself are not modelled (label: partial).
   Only the property theorems live here; each is closed by a lemma of Proofs/C02*.v. *)
From Coq Require Import List NArith ZArith Bool Permutation.
From GQ Require Import Lib.Base Model.C02Monitor Proofs.C02Monitor Model.C02Packets Proofs.C02Packets.
Import ListNotations.
Local Open Scope N_scope.

(* for every stream, direction and prefix h1 of an accepted history: what the receiving application
   read is a prefix of what the sending application wrote; end-of-stream only after all bytes, only
   after the writer's shutdown, and nothing is written afterwards *)
Theorem c02_monitor_sound_streams : forall live B h, monitor live B h = true ->
  forall h1 h2, h = h1 ++ h2 -> forall r sid,
    (exists rest, writes h1 (other r) sid = reads h1 r sid ++ rest) /\
    (eos_in h1 r sid = true ->
       reads h1 r sid = writes h1 (other r) sid /\ shutdown_in h1 (other r) sid = true /\
       writes h2 (other r) sid = []).
Proof. exact p_c02_streams. Qed.

(* every datagram read was sent by the peer before, unchanged; and never more often than sent *)
Theorem c02_monitor_sound_datagrams : forall live B h, monitor live B h = true ->
  (forall h1 r bs h2, h = h1 ++ DgramRecv r bs :: h2 -> In bs (dsent h1 (other r))) /\
  (forall r, r < 2 -> exists rest, Permutation (dsent h (other r)) (drecv h r ++ rest)).
Proof. exact p_c02_datagrams. Qed.

(* no panic, no stall, no transport-error termination; once an application is told the connection
   ended (at te), every operation of that application returns within B virtual ms *)
Theorem c02_monitor_sound_termination : forall live B h, monitor live B h = true ->
  (forall s, ~ In (Panic s) h) /\ (forall t, ~ In (Stall t) h) /\
  (forall s k t, In (ConnError s k t) h -> k < 2) /\
  (forall s te, first_err h s = Some te ->
     forall id ts, In (OpPending s id ts) h ->
     exists res tc, In (OpCompleted s id res tc) h /\ tc <= N.max te ts + B).
Proof. exact p_c02_termination. Qed.

(* no data-bearing event after `closed` *)
Theorem c02_monitor_sound_closed : forall live B h, monitor live B h = true ->
  forall h1 s t h2, h = h1 ++ Closed s t :: h2 -> forall e, In e h2 -> data_event_of s e = false.
Proof. exact p_c02_closed. Qed.

(* bounded-fault profile: the handshake completed on both sides and everything was delivered *)
Theorem c02_monitor_sound_liveness : forall B h, monitor true B h = true ->
  (exists t, In (ConnEstablished 0 t) h) /\ (exists t, In (ConnEstablished 1 t) h) /\
  forall r sid, r < 2 ->
    reads h r sid = writes h (other r) sid /\
    (shutdown_in h (other r) sid = true -> eos_in h r sid = true).
Proof. exact p_c02_liveness. Qed.

(* composition over abstract packets, ideal AEAD as hypothesis: whatever the network delivers … *)
Theorem c02_no_forgery : forall (pkt frame : Type) (open : pkt -> option (N * list frame)) (sent : list (N * list frame)),
  (forall p x, open p = Some x -> In x sent) ->
  forall delivered f, In f (dispatched pkt frame open delivered) -> exists pn fs, In (pn, fs) sent /\ In f fs.
Proof. exact p_c02_no_forgery. Qed.

Theorem c02_no_replay : forall (pkt frame : Type) (open : pkt -> option (N * list frame)) (sent : list (N * list frame)),
  (forall p x, open p = Some x -> In x sent) ->
  forall delivered, NoDup (map fst (processed pkt frame open delivered)) /\ incl (processed pkt frame open delivered) sent.
Proof. exact p_c02_no_replay. Qed.

(* ---- non-vacuity --------------------------------------------------------------------------- *)
(* a history with two streams in both directions, chunked and interleaved reads, a datagram, operations
   pending across a termination, and the same history damaged in six ways *)
Definition good : list ev :=
  [ OpPending 0 1 0; OpPending 1 2 0; ConnEstablished 1 15; OpCompleted 1 2 0 15;
    ConnEstablished 0 20; OpCompleted 0 1 0 20;
    OpPending 1 3 20;                                   (* server: accept loop, pending until the end *)
    AppWrite 0 0 [1;2;3]%Z; AppWrite 0 0 [4;5]%Z; AppRead 1 0 [1;2]%Z; AppWrite 1 0 [9;8]%Z;
    DgramSend 0 [7;7]%Z; AppShutdown 0 0; AppRead 1 0 [3;4;5]%Z; AppEos 1 0;
    AppRead 0 0 [9]%Z; DgramRecv 1 [7;7]%Z; AppWrite 1 3 [6]%Z; AppShutdown 1 0; AppRead 0 0 [8]%Z; AppEos 0 0;
    AppShutdown 1 3; AppRead 0 3 [6]%Z; AppEos 0 3;
    OpPending 0 4 90; ConnError 0 0 100; Closed 0 100; OpCompleted 0 4 1 101;
    ConnError 1 0 130; Closed 1 130; OpCompleted 1 3 1 131 ].

Definition replace_nth (n : nat) (e : ev) (h : list ev) : list ev := firstn n h ++ e :: skipn (S n) h.

Example c02_monitor_nonvacuous :
  monitor true 1000 good = true /\
  verdict true 1000 good = [1; 31; 0]%Z /\
  (* a bit flipped in a delivered byte *)
  verdict false 1000 (replace_nth 13 (AppRead 1 0 [3;4;4]%Z) good) = [0; 13; 1]%Z /\
  (* bytes delivered twice (replayed) *)
  verdict false 1000 (replace_nth 13 (AppRead 1 0 [1;2]%Z) good) = [0; 13; 1]%Z /\
  (* end-of-stream before the last bytes *)
  verdict false 1000 (replace_nth 13 (AppEos 1 0) good) = [0; 13; 1]%Z /\
  (* a datagram nobody sent *)
  verdict false 1000 (replace_nth 16 (DgramRecv 1 [7;6]%Z) good) = [0; 16; 2]%Z /\
  (* an operation told too late / never told *)
  verdict false 10 (replace_nth 30 (OpCompleted 1 3 1 1131) good) = [0; 30; 3]%Z /\
  verdict false 1000 (firstn 30 good) = [0; 30; 6]%Z /\
  (* data after closed *)
  verdict false 1000 (good ++ [AppRead 0 3 []]) = [0; 31; 4]%Z /\
  (* a panic, a stall, a transport-error termination *)
  verdict false 1000 (Panic 2 :: good) = [0; 0; 5]%Z /\
  verdict false 1000 (good ++ [Stall 5000]) = [0; 31; 5]%Z /\
  verdict false 1000 (replace_nth 25 (ConnError 0 12 100) good) = [0; 25; 5]%Z /\
  (* bounded profile: a byte written but never delivered *)
  verdict true 1000 (replace_nth 22 (Bad) good) = [0; 22; 5]%Z /\
  verdict true 1000 (AppWrite 1 7 [1]%Z :: good) = [0; 32; 7]%Z.
Proof. vm_compute. repeat split. Qed.

(* the ideal-AEAD hypothesis is satisfiable and the composition is not vacuous: packets are
   (pn, frames) or garbage; the network duplicates, reorders and injects garbage *)
Example c02_packets_nonvacuous :
  let sent := [(0, [10; 11]); (1, [12]); (2, [13])] in
  let open (p : option (N * list N)) :=
    match p with Some x => if existsb (fun y => (fst y =? fst x) && (lenN (snd y) =? lenN (snd x))) sent then
                             find (fun y => fst y =? fst x) sent else None | None => None end in
  let delivered := [Some (1, [12]); None; Some (1, [12]); Some (0, [10; 11]); Some (9, [99]); Some (0, [10; 11]); Some (1, [12])] in
  processed _ _ open delivered = [(1, [12]); (0, [10; 11])] /\ dispatched _ _ open delivered = [12; 10; 11].
Proof. vm_compute. split; reflexivity. Qed.

Print Assumptions c02_monitor_sound_streams.
Print Assumptions c02_monitor_sound_datagrams.
Print Assumptions c02_monitor_sound_termination.
Print Assumptions c02_monitor_sound_closed.
Print Assumptions c02_monitor_sound_liveness.
Print Assumptions c02_no_forgery.
Print Assumptions c02_no_replay.
Print Assumptions c02_monitor_nonvacuous.
Print Assumptions c02_packets_nonvacuous.
