(* Model of qcongestion/src/congestion.rs (CongestionController behind ArcCC, as driven by
   qconnection/src/path) and of qcongestion/src/pacing.rs (Pacer).  Definitions only.

   The floating-point side of the implementation is NOT modelled; it enters as per-operation
   inputs [rin] read from the implementation through `ArcCC::verif_snapshot`:
     ld     = rtt.loss_delay() as used by detect_lost_packets / on_packet_sent in this operation
     srtt, rttvar = estimator fields at the end of the operation (what set_loss_detection_timer,
              base_pto and the pacer capacity read)
     latest, has_sample = echoed only
     newtok = tokens added by Pacer::schedule in this operation (elapsed * N * cwnd / srtt in f64)
   Everything else is integer arithmetic over nanoseconds, as coded.

   Explicit outcome: [c_panic] is raised where `time_of_last_ack_eliciting_packet.unwrap()` in
   get_pto_time_and_epoch would panic.  Proofs/Pto.v shows it is never raised. *)
From Coq Require Import List ZArith Bool.
From GQ Require Export Model.LossDetect.
Import ListNotations.
Local Open Scope Z_scope.

Definition GRANULARITY : Z := 1000000.          (* 1 ms *)
Definition INITIAL_RTT : Z := 33000000.         (* 33 ms *)
Definition INIT_CWND : Z := 12000.              (* MSS * 10 *)
Definition BURST_INTERVAL : Z := 10000000.      (* 10 ms *)
Definition MIN_BURST_SIZE : Z := 10.
Definition MAX_BURST_SIZE : Z := 1280.
Definition USIZE_MAX : Z := 18446744073709551615.

(* ---- pacer (rate = None for NewReno) ---- *)
Record pacer := mkpacer { pc_cap : Z; pc_cwnd : Z; pc_tokens : Z }.

Definition clamp (x lo hi : Z) : Z := Z.min (Z.max x lo) hi.

Definition calc_capacity (srtt cw mtu : Z) : Z :=
  clamp (cw * BURST_INTERVAL / Z.max srtt 1) (MIN_BURST_SIZE * mtu) (MAX_BURST_SIZE * mtu).

Definition pacer_new (mtu : Z) : pacer :=
  let c := calc_capacity INITIAL_RTT INIT_CWND mtu in mkpacer c INIT_CWND c.

Definition pacer_on_sent (p : pacer) (n : Z) : pacer :=
  mkpacer (pc_cap p) (pc_cwnd p) (Z.max 0 (pc_tokens p - n)).

(* Pacer::schedule ; newtok is the float-computed refill, an input *)
Definition pacer_schedule (p : pacer) (srtt cw mtu newtok : Z) : pacer * Z :=
  let '(cap, tok) :=
    if pc_cwnd p =? cw then (pc_cap p, pc_tokens p)
    else let c := calc_capacity srtt cw mtu in (c, Z.min (pc_tokens p) c) in
  let tok' := Z.min (Z.min (tok + newtok) USIZE_MAX) cap in
  (mkpacer cap cw tok', tok').

(* ---- rtt inputs ---- *)
Record rin := mkrin { i_ld : Z; i_srtt : Z; i_rttvar : Z; i_latest : Z; i_has : Z; i_newtok : Z }.

(* Rtt::base_pto = (smoothed_rtt + max(4*rttvar, 1ms)) * (1 << pto_count)
   [as coded after `fix:` b1af7bb; before it only the max(..) term was multiplied — finding F17] *)
Definition base_pto (ri : rin) (pto_count : Z) : Z :=
  (i_srtt ri + Z.max (4 * i_rttvar ri) GRANULARITY) * 2 ^ pto_count.

(* ---- controller ---- *)
Record cc := mkcc {
  c_reno : reno;
  c_sp : Z -> space;             (* by epoch 0..2 *)
  c_pto_count : Z;
  c_timer : option Z;
  c_pending_burst : bool;
  c_pacer : pacer;
  c_need : Z -> Z;               (* need_send_ack_eliciting_packets *)
  c_server : bool; c_hs_key : bool; c_hs_ack : bool; c_hs_conf : bool; c_amp : bool;
  c_mad : Z;                     (* max_ack_delay *)
  c_mtu : Z;
  c_now : Z;
  c_lastpn : Z -> Z;             (* harness precondition: strictly increasing pn per epoch *)
  c_dead : bool;                 (* TooManyPtos was returned: Path::drive ends the path *)
  c_panic : bool }.

Definition fset {A} (f : Z -> A) (e : Z) (v : A) : Z -> A := fun x => if x =? e then v else f x.

Definition cc_new (server : bool) (mtu mad : Z) : cc :=
  mkcc (reno_new mtu)
       (fun e => if e =? 2 then space_new mad else space_new 0)
       0 None false (pacer_new mtu) (fun _ => 0)
       server false false false true mad mtu 0 (fun _ => -1) false false.

Definition with_reno_sp (c : cc) (r : reno) (e : Z) (s : space) : cc :=
  mkcc r (fset (c_sp c) e s) (c_pto_count c) (c_timer c) (c_pending_burst c) (c_pacer c) (c_need c)
       (c_server c) (c_hs_key c) (c_hs_ack c) (c_hs_conf c) (c_amp c) (c_mad c) (c_mtu c) (c_now c)
       (c_lastpn c) (c_dead c) (c_panic c).

Definition with_timer (c : cc) (t : option Z) (panic : bool) : cc :=
  mkcc (c_reno c) (c_sp c) (c_pto_count c) t (c_pending_burst c) (c_pacer c) (c_need c)
       (c_server c) (c_hs_key c) (c_hs_ack c) (c_hs_conf c) (c_amp c) (c_mad c) (c_mtu c) (c_now c)
       (c_lastpn c) (c_dead c) (c_panic c || panic).

Definition with_pto_count (c : cc) (n : Z) : cc :=
  mkcc (c_reno c) (c_sp c) n (c_timer c) (c_pending_burst c) (c_pacer c) (c_need c)
       (c_server c) (c_hs_key c) (c_hs_ack c) (c_hs_conf c) (c_amp c) (c_mad c) (c_mtu c) (c_now c)
       (c_lastpn c) (c_dead c) (c_panic c).

Definition with_need (c : cc) (e : Z) (v : Z) : cc :=
  mkcc (c_reno c) (c_sp c) (c_pto_count c) (c_timer c) (c_pending_burst c) (c_pacer c) (fset (c_need c) e v)
       (c_server c) (c_hs_key c) (c_hs_ack c) (c_hs_conf c) (c_amp c) (c_mad c) (c_mtu c) (c_now c)
       (c_lastpn c) (c_dead c) (c_panic c).

Definition with_pacer (c : cc) (p : pacer) (pb : bool) : cc :=
  mkcc (c_reno c) (c_sp c) (c_pto_count c) (c_timer c) pb p (c_need c)
       (c_server c) (c_hs_key c) (c_hs_ack c) (c_hs_conf c) (c_amp c) (c_mad c) (c_mtu c) (c_now c)
       (c_lastpn c) (c_dead c) (c_panic c).

Definition with_flags (c : cc) (k a f amp : bool) : cc :=
  mkcc (c_reno c) (c_sp c) (c_pto_count c) (c_timer c) (c_pending_burst c) (c_pacer c) (c_need c)
       (c_server c) k a f amp (c_mad c) (c_mtu c) (c_now c) (c_lastpn c) (c_dead c) (c_panic c).

Definition with_now (c : cc) (t : Z) : cc :=
  mkcc (c_reno c) (c_sp c) (c_pto_count c) (c_timer c) (c_pending_burst c) (c_pacer c) (c_need c)
       (c_server c) (c_hs_key c) (c_hs_ack c) (c_hs_conf c) (c_amp c) (c_mad c) (c_mtu c) t
       (c_lastpn c) (c_dead c) (c_panic c).

Definition with_lastpn (c : cc) (e pn : Z) : cc :=
  mkcc (c_reno c) (c_sp c) (c_pto_count c) (c_timer c) (c_pending_burst c) (c_pacer c) (c_need c)
       (c_server c) (c_hs_key c) (c_hs_ack c) (c_hs_conf c) (c_amp c) (c_mad c) (c_mtu c) (c_now c)
       (fset (c_lastpn c) e pn) (c_dead c) (c_panic c).

Definition with_dead (c : cc) : cc :=
  mkcc (c_reno c) (c_sp c) (c_pto_count c) (c_timer c) (c_pending_burst c) (c_pacer c) (c_need c)
       (c_server c) (c_hs_key c) (c_hs_ack c) (c_hs_conf c) (c_amp c) (c_mad c) (c_mtu c) (c_now c)
       (c_lastpn c) true (c_panic c).

Definition epochs : list Z := [0; 1; 2].

Definition all_no_elic (c : cc) : bool := forallb (fun e => no_elic_inflight (c_sp c e)) epochs.

Definition peer_completed (c : cc) : bool := c_server c || c_hs_ack c || c_hs_conf c.

(* get_loss_time_and_epoch : first minimum over Initial, Handshake, Data *)
Fixpoint loss_time_min (c : cc) (es : list Z) (best : option (Z * Z)) : option (Z * Z) :=
  match es with
  | [] => best
  | e :: rest =>
      match s_loss_time (c_sp c e), best with
      | Some t, Some (bt, _) => if t <? bt then loss_time_min c rest (Some (t, e)) else loss_time_min c rest best
      | Some t, None => loss_time_min c rest (Some (t, e))
      | None, _ => loss_time_min c rest best
      end
  end.
Definition get_loss_time_and_epoch (c : cc) : option (Z * Z) := loss_time_min c epochs None.

(* the for-loop of get_pto_time_and_epoch; result, panic flag *)
Fixpoint pto_loop (c : cc) (es : list Z) (duration : Z) (best : option (Z * Z)) : option (Z * Z) * bool :=
  match es with
  | [] => (best, false)
  | e :: rest =>
      if no_elic_inflight (c_sp c e) then pto_loop c rest duration best else
      if (e =? 2) && negb (c_hs_conf c) then (best, false) else
      let duration' := if e =? 2 then duration + c_mad c * 2 ^ c_pto_count c else duration in
      match s_tolae (c_sp c e) with
      | None => (best, true)
      | Some t0 =>
          let t := t0 + duration' in
          let best' := match best with
                       | None => Some (t, e)
                       | Some (bt, _) => if t <? bt then Some (t, e) else best
                       end in
          pto_loop c rest duration' best'
      end
  end.

Definition get_pto_time_and_epoch (c : cc) (ri : rin) : option (Z * Z) * bool :=
  let duration := base_pto ri (c_pto_count c) in
  if all_no_elic c then
    (Some (c_now c + duration, if c_hs_key c then 1 else 0), false)
  else pto_loop c epochs duration None.

Definition set_loss_detection_timer (c : cc) (ri : rin) : cc :=
  match get_loss_time_and_epoch c with
  | Some (t, _) => with_timer c (Some t) false
  | None =>
      if c_amp c then with_timer c None false else
      if all_no_elic c && peer_completed c then with_timer c None false else
      let '(r, panic) := get_pto_time_and_epoch c ri in
      with_timer c (option_map fst r) panic
  end.

(* CongestionController::on_packet_sent.  [fx] is the variant flag of finding F15 (Model/LossDetect.v):
   as it was ([fx = false]) every in-flight send armed `loss_time` of its space when none was armed
   (`get_or_insert_with(now + loss_delay)`); the repaired code ([fx = true]) arms loss_time only in
   detect_lost_packets, from packets sent before an acknowledged one *)
Definition on_packet_sent (fx : bool) (c : cc) (ri : rin) (e pn : Z) (elic infl : bool) (bytes : Z) : cc :=
  let p := mkpkt pn (c_now c) elic infl bytes Inflight in
  let s := c_sp c e in
  let c1 :=
    if infl then
      let s1 := if elic then mkspace (s_la s) (Some (c_now c)) (s_loss_time s) (s_sent s) (s_mad s) else s in
      let c' := if elic then with_need c e (Z.max 0 (c_need c e - 1)) else c in
      let r1 := on_packet_sent_cc (c_reno c') (p_size p) in
      let s2 := mkspace (s_la s1) (s_tolae s1)
                        (if fx then s_loss_time s1 else
                         match s_loss_time s1 with Some t => Some t | None => Some (c_now c + i_ld ri) end)
                        (s_sent s1) (s_mad s1) in
      set_loss_detection_timer (with_reno_sp c' r1 e s2) ri
    else c in
  let s3 := c_sp c1 e in
  let c2 := with_reno_sp c1 (c_reno c1) e
              (mkspace (s_la s3) (s_tolae s3) (s_loss_time s3) (s_sent s3 ++ [p]) (s_mad s3)) in
  with_pacer c2 (pacer_on_sent (c_pacer c2) bytes) (c_pending_burst c2).

(* CongestionController::discard_epoch *)
Definition discard_epoch (c : cc) (ri : rin) (e : Z) : cc :=
  let '(s, r) := space_discard (c_sp c e) (c_reno c) in
  let c1 := with_need (with_reno_sp c r e s) e 0 in
  set_loss_detection_timer (with_pto_count (with_timer c1 None false) 0) ri.

(* CongestionController::on_ack_rcvd ; returns the may_loss report and the persistent flag *)
Definition cc_on_ack (fx : bool) (c : cc) (ri : rin) (e largest : Z) (cev : option Z) (rs : list (Z * Z))
  : cc * list Z * bool :=
  let s0 := update_la (c_sp c e) largest in
  let '(s1, r1, res) := space_on_ack s0 (c_reno c) rs in
  match res with
  | None => (with_reno_sp c r1 e s1, [], false)
  | Some (_, (_, ltime)) =>
      let r2 := process_ecn r1 cev ltime e (c_now c) in
      let '(s2, r3, lost, pers) := detect_lost fx s1 r2 (i_ld ri) (c_now c) in
      let c1 := with_reno_sp c r3 e s2 in
      let c2 := if peer_completed c1 then with_pto_count c1 0 else c1 in
      (set_loss_detection_timer c2 ri, lost, pers)
  end.

(* CongestionController::on_loss_detection_timeout ; returns pto_count *)
Definition on_loss_detection_timeout (fx : bool) (c : cc) (ri : rin) : cc * list (Z * Z) * bool :=
  match get_loss_time_and_epoch c with
  | Some (_, e) =>
      let '(s, r, lost, pers) := detect_lost fx (c_sp c e) (c_reno c) (i_ld ri) (c_now c) in
      (set_loss_detection_timer (with_reno_sp c r e s) ri, map (fun pn => (e, pn)) lost, pers)
  | None =>
      let c1 :=
        if all_no_elic c then
          let e := if c_hs_key c then 1 else 0 in with_need c e (c_need c e + 1)
        else
          let '(r, panic) := get_pto_time_and_epoch c ri in
          match r with
          | Some (_, e) => with_timer (with_need c e (c_need c e + 1)) (c_timer c) panic
          | None => with_timer c (c_timer c) panic
          end in
      (set_loss_detection_timer (with_pto_count c1 (c_pto_count c1 + 1)) ri, [], false)
  end.

(* a PTO probe has been requested and not yet sent *)
Definition probe_pending (c : cc) : bool := (0 <? c_need c 0) || (0 <? c_need c 1) || (0 <? c_need c 2).

(* room left in the congestion window; a pending probe may use one datagram beyond it (RFC 9002 7.5) *)
Definition window_room (c : cc) : Z :=
  let room := Z.max 0 (cwnd (c_reno c) - bif (c_reno c)) in
  if probe_pending c then Z.max room (c_mtu c) else room.

(* CongestionController::send_quota = min(pacer tokens, window room)
   [as coded after the `fix:` for F16; before it the quota was the pacer bucket alone] *)
Definition cc_send_quota (c : cc) (ri : rin) : cc * Z :=
  let '(p, q) := pacer_schedule (c_pacer c) (i_srtt ri) (cwnd (c_reno c)) (c_mtu c) (i_newtok ri) in
  (with_pacer c p (c_pending_burst c), Z.min q (window_room c)).

(* ------------------------------------------------------------------ *)
(* Operations of the correspondence stream `cc` *)

Inductive cc_op :=
| OpSent (e pn : Z) (elic infl : bool) (bytes : Z)
| OpAck (e : Z) (cev : option Z) (rs : list (Z * Z))
| OpAdv (dt : Z)
| OpTick
| OpHs (which : Z)
| OpDiscard (e : Z)
| OpQuota
| OpGrant
| OpBad.

(* outcome of one operation: flag, result, lost (epoch, pn), persistent flag of the detection pass *)
Record outcome := mkout { o_flag : Z; o_result : Z; o_lost : list (Z * Z); o_pers : bool }.

Fixpoint ranges_ok (prev_lo : Z) (rs : list (Z * Z)) : bool :=
  match rs with
  | [] => true
  | (hi, lo) :: rest => (0 <=? lo) && (lo <=? hi) && (hi + 2 <=? prev_lo) && ranges_ok lo rest
  end.

Definition ack_ok (rs : list (Z * Z)) : bool :=
  match rs with
  | (hi, lo) :: rest => (0 <=? lo) && (lo <=? hi) && (hi <? 2 ^ 62) && ranges_ok lo rest
  | [] => false
  end.

Definition sent_ok (c : cc) (e pn : Z) (elic infl : bool) (bytes : Z) : bool :=
  (c_lastpn c e <? pn) && (0 <=? bytes) && (bytes <=? 2 ^ 20) && (negb elic || infl).

Definition cc_step (fx : bool) (c : cc) (ri : rin) (o : cc_op) : cc * outcome :=
  match o with
  | OpSent e pn elic infl bytes =>
      if sent_ok c e pn elic infl bytes then
        let c1 := on_packet_sent fx (with_lastpn c e pn) ri e pn elic infl bytes in
        (* ArcCC::on_pkt_sent: a client sending a Handshake packet abandons Initial *)
        let c2 := if (e =? 1) && negb (c_server c1) then discard_epoch c1 ri 0 else c1 in
        (c2, mkout 1 0 [] false)
      else (c, mkout 0 0 [] false)
  | OpAck e cev rs =>
      if ack_ok rs then
        let '(c1, lost, pers) := cc_on_ack fx c ri e (fst (hd (0, 0) rs)) cev rs in
        (* ArcCC::on_ack_rcvd: a server receiving a Handshake ACK abandons Initial *)
        let c2 := if (e =? 1) && c_server c1 then discard_epoch c1 ri 0 else c1 in
        (c2, mkout 1 0 (map (fun pn => (e, pn)) lost) pers)
      else (c, mkout 0 0 [] false)
  | OpAdv dt => (with_now c (c_now c + dt), mkout 1 0 [] false)
  | OpTick =>
      let fire := match c_timer c with Some t => t <=? c_now c | None => false end in
      let '(c1, lost, pers) := if fire then on_loss_detection_timeout fx c ri else (c, [], false) in
      if fire && (6 <? c_pto_count c1) then (with_dead c1, mkout 1 1 lost pers)
      else if c_pending_burst c1 then
        let '(c2, q) := cc_send_quota c1 ri in
        (if c_mtu c2 <=? q then with_pacer c2 (c_pacer c2) false else c2, mkout 1 0 lost pers)
      else (c1, mkout 1 0 lost pers)
  | OpHs w =>
      (if w =? 0 then with_flags c true (c_hs_ack c) (c_hs_conf c) (c_amp c)
       else if w =? 1 then with_flags c (c_hs_key c) true (c_hs_conf c) (c_amp c)
       else with_flags c (c_hs_key c) (c_hs_ack c) true (c_amp c), mkout 1 0 [] false)
  | OpDiscard e =>
      if (0 <=? e) && (e <=? 1) then (discard_epoch c ri e, mkout 1 0 [] false)
      else (c, mkout 0 0 [] false)
  | OpQuota =>
      let '(c1, q) := cc_send_quota c ri in
      if c_mtu c1 <=? q then (c1, mkout 1 q [] false)
      else (with_pacer c1 (c_pacer c1) true, mkout 1 (-1) [] false)
  | OpGrant => (with_flags c (c_hs_key c) (c_hs_ack c) (c_hs_conf c) false, mkout 1 0 [] false)
  | OpBad => (c, mkout 0 0 [] false)
  end.

(* ------------------------------------------------------------------ *)
(* printing, identical to harness/hc/src/bin/impl_cc.rs *)

Definition zopt (o : option Z) : Z := match o with Some v => v | None => -1 end.
Definition zb (b : bool) : Z := if b then 1 else 0.
Definition st_code (s : pstate) : Z := match s with Inflight => 0 | AckedS => 1 | Retx => 2 end.

Definition print_pkt (p : pkt) : list Z :=
  [p_pn p; p_time p; zb (p_elic p); zb (p_cc p); p_size p; st_code (p_st p)].

Definition print_space (c : cc) (e : Z) : list Z :=
  let s := c_sp c e in
  [zopt (s_la s); zopt (s_tolae s); zopt (s_loss_time s); c_need c e; Z.of_nat (length (s_sent s))]
  ++ flat_map print_pkt (s_sent s).

Definition print_state (c : cc) : list Z :=
  let r := c_reno c in
  [c_now c; cwnd r; zopt (ssthresh r); bif r; zopt (rstart r); c_pto_count c; zopt (c_timer c);
   zb (c_pending_burst c); pc_cap (c_pacer c); pc_tokens (c_pacer c); ce r 0; ce r 1; ce r 2]
  ++ print_space c 0 ++ print_space c 1 ++ print_space c 2.

Definition print_rin (ri : rin) (used_newtok : bool) : list Z :=
  [i_ld ri; i_srtt ri; i_rttvar ri; i_latest ri; i_has ri; if used_newtok then i_newtok ri else 0].

Definition print_lost (l : list (Z * Z)) : list Z :=
  Z.of_nat (length l) :: flat_map (fun x => [fst x; snd x]) l.

(* the harness reports new_tokens only for the operations that call Pacer::schedule *)
Definition uses_schedule (c : cc) (o : cc_op) (out : outcome) : bool :=
  match o with
  | OpQuota => true
  | OpTick => c_pending_burst c && (o_result out =? 0)
  | _ => false
  end.

Definition cc_obs (fx : bool) (c : cc) (ri : rin) (o : cc_op) : cc * list Z :=
  if c_dead c then (c, [-2]) else
  match o with
  | OpBad => (c, [-99])
  | _ =>
    let '(c1, out) := cc_step fx c ri o in
    (c1, [o_flag out; o_result out] ++ print_rin ri (uses_schedule c o out)
         ++ print_state c1 ++ print_lost (o_lost out))
  end.

(* ---- wire form: args = ld srtt rttvar latest has newtok ++ the harness arguments ---- *)
Fixpoint pairs (l : list Z) : list (Z * Z) :=
  match l with
  | hi :: lo :: rest => (hi, lo) :: pairs rest
  | _ => []
  end.

Definition clamp_epoch (e : Z) : Z := if e <? 0 then 2 else Z.min e 2.

Definition decode_op (t : N) (a : list Z) : cc_op :=
  match t, a with
  | 0%N, [e; pn; el; infl; bytes] => OpSent (clamp_epoch e) pn (negb (el =? 0)) (negb (infl =? 0)) bytes
  | 1%N, e :: _delay :: cev :: rs =>
      if Nat.even (length rs) then OpAck (clamp_epoch e) (if cev <? 0 then None else Some cev) (pairs rs)
      else OpAck (clamp_epoch e) None []
  | 2%N, [dt] => OpAdv dt
  | 3%N, [] => OpTick
  | 4%N, [w] => OpHs w
  | 5%N, [e] => OpDiscard e
  | 6%N, [] => OpQuota
  | 7%N, [] => OpGrant
  | _, _ => OpBad
  end.

Definition default_rin : rin := mkrin 37124999 INITIAL_RTT (INITIAL_RTT / 2) 0 0 0.

Definition decode (t : N) (args : list Z) : rin * cc_op :=
  match args with
  | ld :: sr :: rv :: la :: has :: nt :: rest => (mkrin ld sr rv la has nt, decode_op t rest)
  | _ => (default_rin, OpBad)
  end.

Fixpoint cc_run (fx : bool) (c : cc) (l : list (N * list Z)) : list (list Z) :=
  match l with
  | [] => []
  | (t, a) :: rest =>
      let '(ri, o) := decode t a in
      let '(c1, obs) := cc_obs fx c ri o in
      obs :: cc_run fx c1 rest
  end.

Definition run_cc_with (fx : bool) (cfg : list Z) (l : list (N * list Z)) : list (list Z) :=
  match cfg with
  | [role; mtu; mad_us] => cc_run fx (cc_new (negb (role =? 0)) mtu (mad_us * 1000)) l
  | _ => cc_run fx (cc_new false 1200 25000000) l
  end.

(* [run_cc]: the repaired code (what the stream registry compares with the checked-out source;
   tools/props/C13.py regen() fails closed when qcongestion carries anything else);
   [run_cc_asis]: the code as it was before the repair of F15 *)
Definition run_cc : list Z -> list (N * list Z) -> list (list Z) := run_cc_with true.
Definition run_cc_asis : list Z -> list (N * list Z) -> list (list Z) := run_cc_with false.
