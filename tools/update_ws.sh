#!/bin/sh
# update_ws.sh <name> <path>... : overwrite the given files/dirs in /verif with the agent workspace's versions
W=/tmp/wa_$1/verif; shift
for p in "$@"; do
  if [ -d $W/$p ]; then mkdir -p /verif/$p; rsync -a --delete --exclude '*.vo' --exclude '*.glob' --exclude '*.aux' --exclude '*.vos' --exclude '*.vok' $W/$p/ /verif/$p/; echo "DIR $p";
  elif [ -f $W/$p ]; then mkdir -p /verif/$(dirname $p); cp $W/$p /verif/$p; echo "UPD $p"; else echo "MISSING $p"; fi
done
